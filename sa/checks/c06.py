"""C06 - analytic (window) functions compute over the specified partitions and frames (DESIGN §3 C06).  Structural clauses:

R06.1 the SQL transpiler reads every field of Analytic, Windowing and OrderBy (a field nobody reads is a part of the over()
      clause that has no effect)
R06.2 paired fields are read together: partition_by only where partition_op is honoured (by / except / except all), window bounds
      only with their modes
R06.3 the OVER-clause builder emits PARTITION BY exactly for a non-empty resolved partition list, ORDER BY exactly when the node has
      an order_by (no further condition: the same builder serves rank / lag / first_value, for which order always matters),
      and the frame exactly when the node has a window; a frame is order-sensitive and needs the ORDER BY (known finding:
      frame emitted without it)
R06.4 every analytic operator of the grammar has an SQL template or an explicit branch, the template is the SQL window function
      of the same name applied to the operand and nothing else (no IGNORE NULLS / DISTINCT / FILTER), and sibling operators
      (first_value/last_value, lag/lead) have templates of the same shape
R06.5 the window type and bound keywords are mapped as VTL defines them (data points -> ROWS, range -> RANGE; unbounded /
      current data point / n preceding|following), decided by evaluating visit_Windowing's bound formatter over all shapes
R06.6 the AST constructor (visitWindowingClause, evaluated by E6 over every pair of written limits) hands on the limits in frame order:
      two limits on the same side are ordered (3 preceding … 1 preceding; 1 following … 3 following) whichever way they were written,
      a frame written in order is kept, two unbounded limits on the same side are rejected
Not decided: the values DuckDB computes for a given OVER clause.
"""
from __future__ import annotations

import ast
import re
from typing import Dict, List, Optional, Set, Tuple

from sa import astctor, e7, g4, registryx, sqlx, transp
from sa.cfg import CFG
from sa import structmodel as sm
from sa.e6 import Interp, Raised, Unmodelled
from sa.core import AnalysisError, Finding, FuncInfo, Program, Report, program, src, walk_no_nested

TR = transp.TR
INF = 10 ** 6
EXEMPT: Dict[Tuple[str, str], str] = {}


def over_clause_rules(P: Program, rep: Report, rule: str) -> None:
    """guard <-> emission pairing in _build_over_clause (shared with C15 R15.3)"""
    oc = P.func(f"{TR}._build_over_clause")
    g = CFG(oc.node)
    emitted: Dict[str, List[ast.If]] = {"PARTITION BY": [], "ORDER BY": [], "FRAME": []}
    for n in walk_no_nested(oc.node):
        if not isinstance(n, ast.If):
            continue
        body_txt = " ".join((sqlx.skeleton_of(x) or ("", []))[0] for st in n.body for x in ast.walk(st) if isinstance(x, (ast.Constant, ast.JoinedStr)))
        if "PARTITION BY" in body_txt:
            emitted["PARTITION BY"].append(n)
        if "ORDER BY" in body_txt:
            emitted["ORDER BY"].append(n)
        if any(isinstance(c, ast.Call) and isinstance(c.func, ast.Attribute) and c.func.attr == "visit_Windowing" for st in n.body for c in ast.walk(st)):
            emitted["FRAME"].append(n)
    for what, ifs in emitted.items():
        rep.instance(rule, f"over/{what.replace(' ', '-')}", sample={"guards": [src(i.test) for i in ifs]})
        if len(ifs) != 1:
            rep.add(transp.fnd(rule, f"over/{what.replace(' ', '-')}", oc, oc.node.lineno,
                               f"_build_over_clause must emit {what} under exactly one guard (found {[src(i.test) for i in ifs]})"))
            continue
        t = ifs[0].test
        gn = [x for x in g.nodes if x.kind == "test" and x.stmt is ifs[0]]
        if not gn or g.path_avoiding(g.entry, lambda x: x is g.exit, lambda x: x in gn, follow_exc=False) is not None:
            rep.add(transp.fnd(rule, f"over/{what.replace(' ', '-')}/skipped", oc, ifs[0].lineno, f"a path through _build_over_clause returns without reaching the {what} emission"))
        if what == "ORDER BY":
            ok = src(t) in ("node.order_by", "node.order_by is not None", "len(node.order_by) > 0", "node.order_by is not None and len(node.order_by) > 0")
            if not ok:
                rep.add(transp.fnd(rule, "over/ORDER-BY/guard", oc, ifs[0].lineno,
                                   f"ORDER BY is emitted under `{src(t)}`, not under the node's order_by alone: there are scripts with an order by clause whose window is "
                                   f"evaluated unordered. The builder serves every analytic operator; rank, lag/lead, first_value/last_value and row frames depend on the order "
                                   f"whatever the frame is"))
        elif what == "FRAME":
            if src(t) not in ("node.window", "node.window is not None"):
                rep.add(transp.fnd(rule, "over/FRAME/guard", oc, ifs[0].lineno, f"the frame is emitted under `{src(t)}`, not exactly when the node has a window"))
        elif what == "PARTITION BY":
            # the test variable must be the resolved partition list
            names = {x.id for x in ast.walk(t) if isinstance(x, ast.Name)}
            defs = [n for n in walk_no_nested(oc.node) if isinstance(n, ast.Assign) and any(isinstance(tt, ast.Name) and tt.id in names for tt in n.targets)]
            ok = any("_resolve_partition_cols" in src(d.value) for d in defs)
            if not ok:
                rep.add(transp.fnd(rule, "over/PARTITION-BY/guard", oc, ifs[0].lineno,
                                   f"PARTITION BY is emitted under `{src(t)}`, which is not the partition list resolved with partition_op (by / except / except all)"))


def run(rep: Report, tier: str) -> None:  # noqa: C901
    P = program()
    G = g4.load(P)
    NC = e7.node_classes(P)
    rep.explanation = ("Typed field-read inventory of the SQL transpiler for the analytic node classes; paired-field rule; guard/emission pairing on the "
                       "CFG of the OVER-clause builder; operator templates extracted from the SQL registry and compared with the grammar's analytic "
                       "operators (same-name rule, sibling shape agreement); the window bound formatter evaluated over all bound shapes.")
    rep.rule("R06.1", "transpiler reads every field of Analytic / Windowing / OrderBy")
    rep.rule("R06.2", "partition_by with partition_op, window bounds with their modes")
    rep.rule("R06.3", "OVER builder: PARTITION BY / ORDER BY / frame emitted exactly under their own guards; frame needs ORDER BY")
    rep.rule("R06.4", "every analytic operator has the same-name SQL window function as template; siblings agree")
    rep.rule("R06.5", "window type and bounds mapped as VTL defines them")
    transp.field_coverage(P, rep, "R06.1", ["Analytic", "Windowing", "OrderBy"], EXEMPT, "over() clause")
    transp.paired_fields(P, rep, "R06.2", [("Analytic", "partition_by", "partition_op"), ("Windowing", "start", "start_mode"), ("Windowing", "stop", "stop_mode")],
                         "the value is only meaningful together with its modifier (partition by / except / except all; n preceding / following / unbounded): "
                         "code that uses it alone treats `partition except Id_2` as `partition by Id_2`")
    over_clause_rules(P, rep, "R06.3")
    # frame without ORDER BY: C06 only speaks about total orderings, so this is C15/C33's finding (R15.1 / R33.1); information here
    from sa import orderlint
    for i in orderlint.frame_issues(P):
        rep.instance("R06.3", f"frame/{i.where}", nontrivial=False)
        rep.note(f"R06.3: {i.where} emits the frame whether or not there is an order_by (analytic without order by follows physical row order) - reported under C15/C33")

    # ---- R06.4 operators ----
    sites = astctor.sites(P, G, set(NC))
    ops: Set[str] = set()
    for s in sites:
        if s.cls == "Analytic" and s.ops:
            ops |= s.ops
    if len(ops) < 14:
        raise AnalysisError(f"analytic operators of the grammar not recovered ({sorted(ops)})")
    reg = {e.token: e for e in registryx.extract(P) if e.kind.startswith("arity:1") or e.kind == "custom"}
    bae = P.func(f"{TR}._build_analytic_expr")
    explicit: Set[str] = set()
    for n in walk_no_nested(bae.node):
        if isinstance(n, ast.If):
            for c in ast.walk(n.test):
                if isinstance(c, ast.Compare) and src(c.left) == "op":
                    rhs = c.comparators[0]
                    for e_ in (rhs.elts if isinstance(rhs, (ast.Tuple, ast.List, ast.Set)) else [rhs]):
                        cv = P.const_values(bae, bae.module, e_)
                        if cv:
                            explicit |= {str(x) for x in cv}
    falls_to_registry = any(isinstance(st, ast.Return) and "registry.sql(op" in src(st.value) for st in bae.node.body)
    for op in sorted(ops):
        rep.instance("R06.4", f"op/{op}")
        e = reg.get(op)
        if e is None and op not in explicit:
            rep.add(transp.fnd("R06.4", f"op/{op}", bae, bae.node.lineno, f"analytic operator {op} has neither an SQL template in the registry nor a branch in _build_analytic_expr"))
            continue
        if e is not None and (op not in explicit or op in ("lag", "lead")) and falls_to_registry:
            tpl = e.templates.get(1, "")
            want = {f"{op.upper()}({{0}})", f"{op.upper()}()"} if op == "rank" else {f"{op.upper()}({{0}})"}
            if op == "ratio_to_report":
                continue  # built by its own branch (sum over partition); template unused
            if tpl not in want:
                rep.add(Finding("R06.4", f"R06.4/template/{op}", "src/vtlengine/duckdb_transpiler/Transpiler/operators.py", e.line, f"registry[{op}]",
                                f"the SQL template of analytic operator {op} is `{tpl}`, not the window function of the same name applied to the operand "
                                f"(`{op.upper()}({{0}})`): modifiers such as IGNORE NULLS / DISTINCT / FILTER or another function change which datapoints of the frame count "
                                f"(VTL {op} takes the frame's datapoints as they are, nulls included)"))
    for a, b in (("first_value", "last_value"), ("lag", "lead"), ("stddev_pop", "stddev_samp"), ("var_pop", "var_samp"), ("min", "max")):
        if a in reg and b in reg:
            ta, tb = reg[a].templates.get(1, ""), reg[b].templates.get(1, "")
            rep.instance("R06.4", f"siblings/{a}-{b}", sample={a: ta, b: tb})
            if ta.replace(a.upper(), "X") != tb.replace(b.upper(), "X"):
                rep.add(Finding("R06.4", f"R06.4/siblings/{a}-{b}", "src/vtlengine/duckdb_transpiler/Transpiler/operators.py", reg[b].line, f"registry[{b}]",
                                f"sibling operators {a} / {b} have templates of different shape (`{ta}` vs `{tb}`): one of them treats the frame's datapoints differently"))

    window_frames(P, rep, "R06.5")

    # ---- R06.6 the AST constructor hands visit_Windowing a frame whose limits are in frame order ----
    rep.rule("R06.6", "AST constructor: the two written window limits become (start, stop) in frame order when both lie on the same side; a frame written in order is kept")
    fw = P.func("vtlengine.AST.ASTConstructorModules.Terminals.Terminals.visitWindowingClause")

    class _Tok:
        def __init__(self, text: str) -> None:
            self.text, self.start_line = text, 1

    class _Item:
        def __init__(self, pair) -> None:
            self.pair, self.start_line, self.text = pair, 1, "x"
    written = [(-1, "preceding"), (-1, "following"), (0, "current")] + [(k, d) for k in (1, 2, 3) for d in ("preceding", "following")]

    def off_written(nm) -> int:
        n_, m_ = nm
        if m_ == "current":
            return 0
        if n_ == -1:
            return -INF if m_ == "preceding" else INF
        return -n_ if m_ == "preceding" else n_
    n66 = 0
    for kw in ("data", "range"):
        for a in written:
            for b in written:
                kids = ([_Tok(kw), _Tok("points"), _Tok("between"), _Item(a), _Tok("and"), _Item(b)] if kw == "data" else [_Tok(kw), _Tok("between"), _Item(a), _Tok("and"), _Item(b)])
                ext6 = {"self.visitLimitClauseItem": lambda c: c.pair, "extract_token_info": lambda c: {}, "Windowing": lambda **k: k}
                try:
                    r6 = Interp(P, externals=ext6).call(fw, {"self": object(), "ctx": sm.MNode("ctx", children=kids)})
                    got6 = (offset(r6["start"], r6["start_mode"]), offset(r6["stop"], r6["stop_mode"]))
                except Raised:
                    got6 = None
                except Unmodelled as e:
                    raise AnalysisError(f"R06.6: visitWindowingClause outside the evaluator's language: {e}")
                oa, ob = off_written(a), off_written(b)
                same_side = a[1] == b[1] and a[1] != "current"
                if not (same_side or oa <= ob):
                    continue  # limits written in reverse across the current datapoint: not a frame; not decided here
                if same_side and oa == ob and abs(oa) == INF:
                    want6 = None  # both limits unbounded on the same side: rejected
                else:
                    want6 = (min(oa, ob), max(oa, ob))
                n66 += 1
                key6 = f"constructor/{kw}/{a[0]}-{a[1]}..{b[0]}-{b[1]}"
                rep.instance("R06.6", key6, sample={"frame": got6})
                if got6 != want6:
                    rep.add(transp.fnd("R06.6", key6, fw, fw.node.lineno,
                                       f"`{kw} between {a[0]} {a[1]} and {b[0]} {b[1]}` (-1 = unbounded, 0 = current data point) is built as the frame {got6}; "
                                       f"expected {want6 if want6 is not None else 'a rejection'} (offsets relative to the current datapoint, start <= stop)"))
    rep.floor("R06.6 written frames evaluated", n66, 80)
    # ---- R06.8 the window kind is stored as the text of the clause's first token: every comparison uses one of those texts ----
    rep.rule("R06.8", "Windowing.type_ is compared only with the values the constructor stores (texts of DATA / RANGE from the grammar)")
    from sa import g4 as _g4
    _G = _g4.load(P)
    stored = {t for t in (_G.tokens.get("DATA"), _G.tokens.get("RANGE")) if t}
    if len(stored) != 2:
        raise AnalysisError(f"grammar: DATA / RANGE token texts not found ({stored})")
    ctor_defaults = {k.value.value for f_ in P.iter_functions() if f_.module.name.startswith("vtlengine.AST.ASTConstructor") for c_ in walk_no_nested(f_.node)
                     if isinstance(c_, ast.Call) and src(c_.func).split(".")[-1] == "Windowing" for k in c_.keywords if k.arg == "type_" and isinstance(k.value, ast.Constant)}
    if not ctor_defaults <= stored:
        raise AnalysisError(f"constructor stores Windowing.type_ values {ctor_defaults - stored} that are not DATA / RANGE token texts")
    # values the constructor stores in the `type_` field of OTHER node classes (Constant, ParamConstant, ID ...): comparisons with those are not about windows
    other_type_values: Set[str] = set()
    for f_ in P.iter_functions():
        if f_.module.name.startswith("vtlengine.AST.ASTConstructor"):
            for c_ in walk_no_nested(f_.node):
                if isinstance(c_, ast.Call) and src(c_.func).split(".")[-1] != "Windowing":
                    for k in c_.keywords:
                        if k.arg == "type_":
                            other_type_values |= {v for v in (P.const_values(f_, f_.module, k.value) or set()) if isinstance(v, str)}
    n8 = 0
    for f_ in P.iter_functions():
        if not f_.module.name.startswith("vtlengine") or f_.module.name.startswith("vtlengine.AST.ASTConstructor"):
            continue
        for c_ in walk_no_nested(f_.node):
            if isinstance(c_, ast.Compare) and isinstance(c_.left, ast.Attribute) and c_.left.attr == "type_":
                for cmp_ in c_.comparators:
                    consts = [x.value for x in ast.walk(cmp_) if isinstance(x, ast.Constant) and isinstance(x.value, str)]
                    for v_ in consts:
                        n8 += 1
                        rep.instance("R06.8", f"window-kind/{f_.qualname}/{v_}", nontrivial=True)
                        if v_ not in stored and v_ not in other_type_values:
                            rep.add(Finding("R06.8", f"R06.8/window-kind/{f_.qualname}/{v_}", f_.module.rel, c_.lineno, f_.qualname,
                                            f"`{src(c_)}` compares the window kind with {v_!r}, a value the AST never holds (the constructor stores {sorted(stored)}): the test has the same outcome "
                                            f"for every window, so rows windows are treated as range windows or the reverse"))
    rep.floor("R06.8 window-kind comparisons", n8, 2)
    # ---- R06.7 analytic windows order Time_Period components as text: one stored text per period, zero padded ----
    rep.rule("R06.7", "every accepted spelling of a Time_Period is stored as the one canonical (zero padded) text, which ORDER BY / PARTITION BY then compare")
    from sa import sqlx as _sqlx7
    from sa.checks.c21 import spelling_grid
    from sa.checks.c19 import period_limits
    spelling_grid(rep, "R06.7", {k.lower(): v for k, v in _sqlx7.load_macros(P).items()}, period_limits(P))
    # ---- R06.9: the dependency analysis reads the operand / partition / order of an analytic call on every path (shared with C12) ----
    rep.rule("R06.9", "the dependency handlers of Analytic / Windowing / OrderBy descend into every operand field on every path: an operand expression may read a scalar of "
                      "another statement, which must be ordered before the analytic call and kept until it ran")
    from sa.checks.c12 import traversal_on_every_path as _traversal
    _traversal(P, rep, "R06.9", {"Analytic"})
    from sa.checks.c12 import handler_field_matrix as _matrix
    _matrix(P, rep, "R06.9", {"Analytic", "Windowing", "OrderBy"}, floor=1)
    # ---- R06.10: partition / order names inside a user-defined operator are the ARGUMENTS of the call (one substitution, no capture) ----
    rep.rule("R06.10", "_resolve_udo_name evaluated on an operator called with its component parameters swapped (`op(ds, Id_1 component, Id_2 component)` called as "
                       "`op(DS_1, Id_2, Id_1)`): a parameter resolves to the argument of the call, and the argument - a name of the caller's scope - is not looked up again")
    from sa import structmodel as _smu
    from sa.e6 import Interp as _Iu, Raised as _Ru, Unmodelled as _Uu
    _fr = P.func(_smu.SV + "._resolve_udo_name")
    _nu = 0
    for _lab, _scopes, _ask, _want in (
            ("swapped", [{"ds": _smu.MNode("VarID", value="DS_1"), "Id_1": _smu.MNode("VarID", value="Id_2"), "Id_2": _smu.MNode("VarID", value="Id_1")}], "Id_1", "Id_2"),
            ("swapped-2", [{"ds": _smu.MNode("VarID", value="DS_1"), "Id_1": _smu.MNode("VarID", value="Id_2"), "Id_2": _smu.MNode("VarID", value="Id_1")}], "Id_2", "Id_1"),
            ("shifted", [{"a": _smu.MNode("Identifier", value="b"), "b": _smu.MNode("Identifier", value="c")}], "a", "b"),
            ("plain-string", [{"a": "b", "b": "c"}], "a", "b"),
            ("unbound", [{"a": _smu.MNode("VarID", value="b")}], "Me_1", "Me_1"),
            ("no-operator", None, "Me_1", "Me_1")):
        _t = _smu.MSelf()
        _t._udo_params = _scopes
        try:
            _got = _Iu(P, externals={"isinstance": _smu._isinstance}, max_steps=2000).call(_fr, {"self": _t, "name": _ask})
        except _Ru as e:
            _got = f"<raises {type(e.exc).__name__}>"
        except _Uu as e:
            raise AnalysisError(f"R06.10: _resolve_udo_name outside the evaluator's language: {e}")
        _nu += 1
        rep.instance("R06.10", f"udo-name/{_lab}", nontrivial=True, sample={"bindings": None if _scopes is None else {k: getattr(v, "value", v) for k, v in _scopes[0].items()}, "name": _ask, "resolved": _got})
        if _got != _want:
            rep.add(Finding("R06.10", f"R06.10/udo-name/{_lab}", _fr.module.rel, _fr.node.lineno, _fr.qualname,
                            f"inside an operator whose parameters are bound {({k: getattr(v, 'value', v) for k, v in _scopes[0].items()} if _scopes else {})}, the name {_ask!r} resolves to {_got!r}; "
                            f"the call passes {_want!r}: `partition by` / `order by` (and calc, rename, group by) inside the operator then address a different component than the caller named"))
    rep.floor("R06.10 binding shapes", _nu, 6)
    # ---- R06.11: the analytic result has the measures semantic analysis declares (shared with C10) ----
    rep.rule("R06.11", "dataset-level analytic operators: the measures Analytic.validate declares == the measure columns of the generated SELECT, for one and two operand measures")
    from sa.checks.c10 import analytic_measures_agree as _ama
    _ama(P, rep, "R06.11")
    # ---- R06.12: a Date column ordered by an analytic window keeps its time part whatever the row order (shared with C18 R18.4) ----
    rep.rule("R06.12", "DataFrame Date column: TIMESTAMP iff SOME value has a time part - a decision taken from the first value truncates later date-times, and range windows "
                       "ordered by that column then depend on the order of the input rows")
    from sa.checks.c18 import timestamp_decision_existential as _tde
    _tde(P, rep, "R06.12")
    rep.assumptions = ["DuckDB's window functions of the same name implement the VTL analytic operators over the given OVER clause",
                       "grammar alternative <-> constructor method pairing (ANTLR naming)"]


def offset(v: object, mode: str) -> Optional[int]:
    if v == "current row" or mode == "current":
        return 0
    if v == "unbounded" or v == -1:
        return -INF if mode == "preceding" else INF
    return -int(v) if mode == "preceding" else int(v)  # type: ignore[call-overload]

def parse_bound(txt: str) -> Optional[int]:
    t = txt.strip().upper()
    if t == "CURRENT ROW":
        return 0
    m_ = re.fullmatch(r"(UNBOUNDED|\d+|INTERVAL '(\d+)' DAY) (PRECEDING|FOLLOWING)", t)
    if not m_:
        return None
    if m_.group(1) == "UNBOUNDED":
        return -INF if m_.group(3) == "PRECEDING" else INF
    n_ = int(m_.group(2) or m_.group(1))
    return -n_ if m_.group(3) == "PRECEDING" else n_


def window_frames(P: Program, rep: Report, rule: str) -> None:
    """visit_Windowing evaluated (finite evaluator) over every frame shape VTL admits, for both window kinds and for numeric / Date orderings:
    `data points` must become ROWS and `range` RANGE with the same offsets.  Shared with C15 / C33: a VTL range window written as ROWS
    turns datapoints that tie on the ORDER BY key from peers (one determined result) into a sequence in physical row order."""
    from sa import structmodel as sm
    from sa.e6 import Interp, Raised, Unmodelled
    vw = P.func(f"{TR}.visit_Windowing")

    bounds = [("unbounded", "preceding"), ("unbounded", "following"), ("current row", "current")] + [(k, d) for k in (0, 1, 2, 3) for d in ("preceding", "following")]
    n_frames = 0
    for wtype, want_kw in (("data", "ROWS"), ("range", "RANGE")):
        for date in (False, True):
            for (a, am) in bounds:
                for (b, bm) in bounds:
                    lo, hi = offset(a, am), offset(b, bm)
                    if lo is None or hi is None or lo > hi or (lo == hi and abs(lo) == INF):
                        continue  # not a frame VTL admits (the AST constructor orders / rejects these)
                    node = sm.MNode("Windowing", type_=wtype, start=a, stop=b, start_mode=am, stop_mode=bm)
                    it = Interp(P, externals={"self._resolve_scalar_varid": lambda x: x})
                    try:
                        got = it.call(vw, {"self": sm.MTranspiler(), "node": node, "order_is_date": date})
                    except Unmodelled as e:
                        raise AnalysisError(f"{rule}: visit_Windowing is outside the evaluator's language: {e}")
                    except Raised as e:
                        got = f"<raises {getattr(e.exc, 'kind', e.exc)}>"
                    n_frames += 1
                    key = f"frame/{wtype}{'/date' if date else ''}/{a}-{am}..{b}-{bm}"
                    rep.instance(rule, key, sample={"sql": got})
                    m_ = re.fullmatch(r"(ROWS|RANGE|GROUPS) BETWEEN (.+?) AND (.+)", str(got).strip())
                    glo = parse_bound(m_.group(2)) if m_ else None
                    ghi = parse_bound(m_.group(3)) if m_ else None
                    if not m_ or m_.group(1) != want_kw or glo != lo or ghi != hi:
                        rep.add(transp.fnd(rule, key, vw, vw.node.lineno,
                                           f"window `{wtype}{' points' if wtype == 'data' else ''} between {a} {am} and {b} {bm}`" + (" (ordered by a Date)" if date else "") +
                                           f" is written `{got}`; VTL means {want_kw} from offset {lo} to offset {hi} relative to the current datapoint "
                                           f"(preceding = negative, following = positive, ±{INF} = unbounded)"))
                    if date and wtype == "range" and m_ and any(isinstance(x, int) and x > 0 for x in (a, b)) and "INTERVAL" not in str(got):
                        rep.add(transp.fnd(rule, key + "/interval", vw, vw.node.lineno,
                                           f"RANGE frame over a Date ordering is written `{got}`: DuckDB needs an INTERVAL offset for a date ORDER BY (an integer offset is a binder error)"))
    rep.floor(f"{rule} frames evaluated", n_frames, 150)

