"""C18 - CSV, DataFrame and Parquet inputs with the same content behave identically (DESIGN §3 C18).

R18.1 shared schema and shared post-load validation: all three loaders create the table with build_create_table_sql, insert,
      and pass through _validate_loaded_table; duckdb errors are converted by map_duckdb_error and the table is dropped
      before re-raising
R18.2 rejecting-guard parity per component type: the SQL each loader emits for a component of a given type
      (build_select_columns for CSV; _build_dataframe_select_columns for DataFrame and Parquet; both lowered by the E6
      evaluator over every type × nullability) applies the same REJECTING guards (error(…), regexp_matches, integrality test)
R18.3 Number values are converted from their TEXT form in every loader (CSV reads DECIMAL from text; the DataFrame/Parquet
      path must cast through VARCHAR): a direct DOUBLE→DECIMAL cast rounds the binary value, not the written one
R18.4 CSV column binding by header order is decided under C33 (R33.2)
Not decided: equality of results for accepted inputs.
"""
from __future__ import annotations

import ast
import re
from typing import Any, Dict, List, Optional, Set, Tuple

from sa.cfg import CFG, describe_path
from sa.core import AnalysisError, Finding, Program, Report, program, src, walk_no_nested
from sa.e6 import ClassVal, ExternalObj, Interp, Raised

VAL = "vtlengine.duckdb_transpiler.io._validation"
IO = "vtlengine.duckdb_transpiler.io._io"
TYPES = ["String", "Integer", "Number", "Boolean", "Date", "TimePeriod", "TimeInterval", "Duration"]


def _callee_name(c: ast.Call) -> str:
    return c.func.id if isinstance(c.func, ast.Name) else (c.func.attr if isinstance(c.func, ast.Attribute) else "")


def guards(sql: str) -> Set[str]:
    s = sql.upper()
    out: Set[str] = set()
    if "ERROR(" in s:
        out.add("error()")
    if "REGEXP_MATCHES" in s or "REGEXP_FULL_MATCH" in s:
        out.add("regex")
    if "FLOOR(" in s or "TRUNC(" in s or re.search(r"%\s*1\b", s):
        out.add("integrality")
    return out


NEUTRAL_FUNCS = {"CAST", "TRY_CAST", "NULLIF", "REPLACE", "REGEXP_MATCHES", "ERROR", "FLOOR", "COALESCE", "LENGTH"}


def value_changing(sql: str) -> Set[str]:
    """names of the functions applied in a load expression other than casts, the empty-string/quote conventions of CSV and the
    rejecting guards (those are compared by R18.2)"""
    return {m.group(1).upper() for m in re.finditer(r"\b([A-Za-z_][A-Za-z_0-9]*)\s*\(", sql) if m.group(1).upper() not in NEUTRAL_FUNCS
            and m.group(1).upper() not in ("CASE", "WHEN", "AND", "OR", "NOT", "IN", "THEN", "ELSE", "AS", "DECIMAL", "VARCHAR")}


def run(rep: Report, tier: str) -> None:
    P = program()
    rep.explanation = ("CFG must-pass-through rules on the three loaders; the per-type SQL of the CSV and the DataFrame/Parquet SELECT builders "
                       "is obtained by lowering both builder functions with the decision-table evaluator over type × nullable × source type, "
                       "and compared for rejecting guards and for the conversion chain of Number.")
    for rid, text in [("R18.1", "all loaders: build_create_table_sql → INSERT → _validate_loaded_table; errors mapped, table dropped"),
                      ("R18.2", "same rejecting guards per component type in the CSV and DataFrame/Parquet SELECT builders"),
                      ("R18.3", "Number is converted from text in every loader"),
                      ("R18.6", "the CSV read type carries every value of the column's table type exactly (no binary float between the text and BIGINT / DECIMAL)"),
                      ("R18.5", "the same text is stored as the same value: CSV and DataFrame/Parquet builders apply the same value-changing functions per component type")]:
        rep.rule(rid, text)
    # ---- R18.1 -------------------------------------------------------------------------------------------
    for ln in ("load_datapoints_duckdb", "_load_parquet", "register_dataframes"):
        lf = P.func(f"{IO}.{ln}")
        g = CFG(lf.node)
        create = [n for n in g.nodes if any(_callee_name(c) == "build_create_table_sql" for c in g.calls_at(n))]
        valid = [n for n in g.nodes if any(_callee_name(c) == "_validate_loaded_table" for c in g.calls_at(n))]
        rep.instance("R18.1", f"shared/{ln}", nontrivial=True, sample={"loader": ln, "create_sites": [n.lineno for n in create], "validate_sites": [n.lineno for n in valid]})
        if not create or not valid:
            rep.add(Finding("R18.1", f"R18.1/shared/{ln}", lf.module.rel, lf.node.lineno, lf.qualname,
                            f"{ln} does not use the shared schema builder / shared post-load validation"))
            continue
        handlers = [h for n in walk_no_nested(lf.node) if isinstance(n, ast.Try) for h in n.handlers]
        dk = [h for h in handlers if h.type is not None and "duckdb.Error" in src(h.type)]
        rep.instance("R18.1", f"errors/{ln}", nontrivial=True)
        if not dk or not all(any(isinstance(x, ast.Call) and _callee_name(x) == "map_duckdb_error" for x in ast.walk(h)) for h in dk):
            rep.add(Finding("R18.1", f"R18.1/errors/{ln}", lf.module.rel, lf.node.lineno, lf.qualname,
                            f"{ln}: duckdb.Error is not converted through map_duckdb_error"))
        if not all(any("DROP TABLE" in src(x).upper() for x in ast.walk(h)) for h in dk):
            rep.add(Finding("R18.1", f"R18.1/drop-on-failure/{ln}", lf.module.rel, lf.node.lineno, lf.qualname,
                            f"{ln}: a failed load does not drop the half-filled table before re-raising"))

    # ---- R18.2 / R18.3 ----------------------------------------------------------------------------------------
    dt = "vtlengine.DataTypes"
    f_csv = P.func(f"{VAL}.build_select_columns")
    f_df = P.func(f"{IO}._build_dataframe_select_columns")
    f_rt = P.func(f"{VAL}.get_csv_read_type")
    ext = {"get_decimal_type": lambda: "DECIMAL(28,10)"}
    ncell = 0
    for t in TYPES:
        for nullable in (True, False):
            comp = ExternalObj({"role": "Measure", "nullable": nullable, "data_type": ClassVal(f"{dt}.{t}"), "name": "C"})
            it = Interp(P, externals=ext)
            try:
                csv_type = it.call(f_rt, {"comp": comp})
                it = Interp(P, externals=ext)
                csv_sql = it.call(f_csv, {"components": {"C": comp}, "keep_columns": ["C"], "csv_dtypes": {"C": csv_type}, "dataset_name": "DS"})[0]
            except Raised as r:
                raise AnalysisError(f"build_select_columns raised {r.exc} for {t}")
            df_sqls: Dict[str, str] = {}
            for st in ("VARCHAR", "DOUBLE", "BIGINT", "TIMESTAMP"):
                it = Interp(P, externals=ext)
                try:
                    df_sqls[st] = it.call(f_df, {"components": {"C": comp}, "df_columns": ["C"], "source_types": {"C": st}})[0]
                except Raised as r:
                    raise AnalysisError(f"_build_dataframe_select_columns raised {r.exc} for {t}/{st}")
            ncell += 1
            gc = guards(csv_sql)
            gd = guards(df_sqls["VARCHAR"])  # same textual content: string-typed source column
            key = f"{t}/nullable={nullable}"
            rep.instance("R18.2", key, nontrivial=True,
                         sample={"type": t, "nullable": nullable, "csv": " ".join(csv_sql.split())[:150], "dataframe(VARCHAR source)": df_sqls["VARCHAR"][:150],
                                 "csv_guards": sorted(gc), "dataframe_guards": sorted(gd)} if t in ("Integer", "Date") and nullable else None)
            if gc != gd:
                only_csv, only_df = sorted(gc - gd), sorted(gd - gc)
                rep.add(Finding("R18.2", f"R18.2/{t}", f_df.module.rel, f_df.node.lineno, f_df.qualname,
                                f"component type {t}: the CSV loader applies rejecting guard(s) {only_csv or '—'} that the DataFrame/Parquet loader "
                                f"does not, and the DataFrame/Parquet loader applies {only_df or '—'} that the CSV loader does not; the same value "
                                f"is rejected in one input form and accepted (possibly altered) in the other"))
            # R18.5: the VALUE stored for the same text is the same in both loaders (value-changing functions applied to the column)
            vc_csv, vc_df = value_changing(csv_sql), value_changing(df_sqls["VARCHAR"])
            rep.instance("R18.5", key, nontrivial=True, sample={"csv": sorted(vc_csv), "dataframe": sorted(vc_df)})
            if vc_csv != vc_df:
                rep.add(Finding("R18.5", f"R18.5/{t}/nullable={nullable}", f_csv.module.rel, f_csv.node.lineno, f_csv.qualname,
                                f"component type {t}: the CSV loader stores the value through {sorted(vc_csv) or 'no function'} and the DataFrame/Parquet loader through "
                                f"{sorted(vc_df) or 'no function'}: the same text (e.g. a lower-case or blank-padded value) is stored - and accepted or rejected - differently depending on the input form"))
            # R18.6: the CSV read type is an exact carrier for the table type (the DataFrame/Parquet forms hand the values over in their own type)
            if nullable:
                rt_u = str(csv_type).upper()
                tbl = {"Integer": "BIGINT (64-bit integers)", "Number": "DECIMAL(p,s) with p > 15 significant digits"}.get(t)
                if tbl is not None:
                    rep.instance("R18.6", f"carrier/{t}", nontrivial=True, sample={"type": t, "csv_read_type": csv_type})
                    if rt_u.split("(")[0] in ("DOUBLE", "FLOAT", "REAL", "FLOAT4", "FLOAT8"):
                        rep.add(Finding("R18.6", f"R18.6/carrier/{t}", f_rt.module.rel, f_rt.node.lineno, f_rt.qualname,
                                        f"{t} column of a CSV file: is read as {csv_type}, a binary float with 53 significant bits, and then cast to {tbl}: a value with more than "
                                        f"15-17 significant digits (e.g. {'9007199254740993' if t == 'Integer' else '123456789012345678'}) is stored as a neighbouring value, "
                                        f"and two distinct identifiers collapse into a duplicate, while the DataFrame and Parquet forms keep the value exact"))
            if t == "Integer" and nullable:
                # an Integer handed over in an exact integer column (int64 / Int64 DataFrame column, native Parquet) never passes through a binary float
                sqlb = df_sqls["BIGINT"]
                rep.instance("R18.6", "carrier/Integer/dataframe-BIGINT", nontrivial=True, sample={"source_type": "BIGINT", "sql": " ".join(sqlb.split())[:200]})
                fl = re.findall(r'(?:AS\s+|::\s*)(DOUBLE|FLOAT|REAL|FLOAT4|FLOAT8)\b', re.sub(r"THEN\s+error\(.*?\)\s+ELSE", "THEN error() ELSE", sqlb, flags=re.I | re.S), re.I)
                # a float used only inside a rejecting test is harmless; a float on the way to the stored value is not: look at the value branch (after the last ELSE, or the whole expression)
                value_part = sqlb[sqlb.upper().rfind(" ELSE ") + 6:] if " ELSE " in sqlb.upper() else sqlb
                if re.search(r'(?:AS\s+|::\s*)(DOUBLE|FLOAT|REAL|FLOAT4|FLOAT8)\b', value_part, re.I):
                    rep.add(Finding("R18.6", "R18.6/carrier/Integer/dataframe-BIGINT", f_df.module.rel, f_df.node.lineno, f_df.qualname,
                                    f"Integer component from a BIGINT source column (int64 DataFrame column / native Parquet) is stored through `{' '.join(value_part.split())[:120]}`: the value passes "
                                    f"through a binary float with 53 significant bits, so 9007199254740993 is stored as 9007199254740992 and two distinct identifiers collapse, while the same "
                                    f"values given as text keep all their digits"))
            if t == "Number":
                for st, sql in df_sqls.items():
                    rep.instance("R18.3", f"Number/source={st}", nontrivial=True, sample={"source_type": st, "sql": sql})
                    inner = re.search(r'CAST\(\s*CAST\(\s*"C"\s+AS\s+VARCHAR\s*\)\s+AS\s+DECIMAL', sql, re.I)
                    if not inner and not re.search(r'CAST\(\s*NULL', sql, re.I):
                        rep.add(Finding("R18.3", f"R18.3/Number/source={st}", f_df.module.rel, f_df.node.lineno, f_df.qualname,
                                        f"Number from a {st} source column is emitted as `{sql}`: not converted from its text form, so a binary "
                                        f"double just below a decimal tie rounds differently than the same value written in a CSV"))
    rep.floor("type cells", ncell, 16)
    rep.analysed = {"types": TYPES, "cells": ncell}
    # ---- R18.4: a Date column of a DataFrame is stored as TIMESTAMP as soon as ANY value carries a time (the CSV loader always does) ----
    timestamp_decision_existential(P, rep, "R18.4")
    # ---- R18.8: a load error is a VTL error in every input form: the mapper that converts it cannot fail itself ----
    rep.rule("R18.8", "map_duckdb_error (the CSV / DataFrame / Parquet loaders' error mapper) guards every partial operation on the engine's message")
    from sa.checks.c32 import mapper_partial_operations
    mapper_partial_operations(P, rep, "R18.8")
    # ---- R18.7: the fetch formats each TIMESTAMP column by ITS OWN content (CSV stores every Date as TIMESTAMP, DataFrames only those with a time) ----
    rep.rule("R18.7", "result fetch: a TIMESTAMP column is rendered with a time of day iff that column holds one - sub-second fractions included (decided per column, the probe's row "
                      "predicate evaluated on a model table)")
    fetch_time_format(P, rep, "R18.7")
    # ---- R18.9: a column that names a declared component is never taken for an SDMX service column ----
    rep.rule("R18.9", "handle_sdmx_columns evaluated over header x structure combinations: every column that names a declared component is kept (whatever its case), and the service "
                      "columns STRUCTURE / STRUCTURE_ID / ACTION / leading DATAFLOW that the structure does not declare are left out - the DataFrame loader takes declared columns by name")
    from sa.e6 import Unmodelled as _U18
    fh = P.func("vtlengine.duckdb_transpiler.io._validation.handle_sdmx_columns")
    n9 = 0
    bad9: Dict[str, str] = {}
    for comp_names in (["Id_1", "Me_1"], ["Id_1", "action"], ["Id_1", "Action"], ["Id_1", "ACTION"], ["Structure", "Me_1"], ["Id_1", "structure_id"], ["STRUCTURE", "STRUCTURE_ID"],
                       ["dataflow", "Me_1"], ["DATAFLOW", "Me_1"], ["Id_1", "Dataflow"]):
        for extra in ([], ["ACTION"], ["STRUCTURE", "STRUCTURE_ID"], ["DATAFLOW"], ["DATAFLOW", "STRUCTURE", "STRUCTURE_ID", "ACTION"]):
            cols = [e for e in extra if e == "DATAFLOW" and e not in comp_names] + comp_names + [e for e in extra if e != "DATAFLOW" and e not in comp_names]
            comps = {c_: ExternalObj({"name": c_}) for c_ in comp_names}
            try:
                kept = list(Interp(P, max_steps=4000).call(fh, {"columns": list(cols), "components": comps}))
            except Raised as r:
                kept = [f"<raises {getattr(r.exc, 'code', None) or getattr(r.exc, 'kind', '?')}>"]
            except _U18 as e:
                raise AnalysisError(f"R18.9: handle_sdmx_columns outside the evaluator's language: {e}")
            n9 += 1
            want = [c_ for c_ in cols if c_ in comp_names or c_ not in ("STRUCTURE", "STRUCTURE_ID", "ACTION", "DATAFLOW")]
            if n9 <= 4 or kept != want:
                rep.instance("R18.9", f"sdmx-columns/{'+'.join(cols)}", nontrivial=True, sample={"header": cols, "components": comp_names, "kept": kept})
            if kept != want:
                lost = [c_ for c_ in comp_names if c_ not in kept]
                k9 = "declared-column-dropped" if lost else "service-column-kept"
                bad9.setdefault(k9, f"header {cols} for a structure with the components {comp_names}: kept {kept}, expected {want}" + (f" - the declared component(s) {lost} are treated as SDMX service "
                                f"columns: the CSV / Parquet loaders then fill them with NULL or report them missing, while the same table given as a DataFrame keeps the values" if lost else ""))
    for k9, text in bad9.items():
        rep.add(Finding("R18.9", f"R18.9/{k9}", fh.module.rel, fh.node.lineno, fh.qualname, text))
    rep.floor("R18.9 header/structure combinations", n9, 40)
    # ---- R18.10: the table column types and the cast targets of the INSERT come from the same overrides ----
    rep.rule("R18.10", "in every loader, the column types of CREATE TABLE (build_create_table_sql) and the cast targets of the INSERT's select list are built from the same type overrides: "
                       "a file's physical types are source types, never cast targets")
    n10 = 0
    for f in P.iter_functions():
        if not f.qualname.startswith("vtlengine.duckdb_transpiler.io."):
            continue
        bound: Dict[str, List[Tuple[ast.Call, Optional[ast.AST], str]]] = {"create": [], "select": []}
        for c in walk_no_nested(f.node):
            if not isinstance(c, ast.Call):
                continue
            for t in P.resolve_call(f, c):
                try:
                    callee = P.func(t)
                except KeyError:
                    continue
                if "type_overrides" not in callee.params or callee.qualname == f.qualname:
                    continue
                cps = [x for x in callee.params if x not in ("self", "cls")]
                i = cps.index("type_overrides")
                arg = next((k.value for k in c.keywords if k.arg == "type_overrides"), c.args[i] if i < len(c.args) else None)
                kind = "create" if "create_table" in callee.name else "select"
                bound[kind].append((c, arg, callee.name))
        if not bound["create"] or not bound["select"]:
            continue
        cre = {src(a) if a is not None else None for _c, a, _n in bound["create"]}
        for c, a, nm in bound["select"]:
            n10 += 1
            rep.instance("R18.10", f"{f.qualname}/{nm}", nontrivial=True, sample={"loader": f.qualname, "create_table_overrides": sorted(map(str, cre)), "select_overrides": src(a) if a is not None else None})
            if (src(a) if a is not None else None) not in cre:
                rep.add(Finding("R18.10", f"R18.10/{f.qualname}/{nm}", f.module.rel, c.lineno, f.qualname,
                                f"{nm}() casts to the types `{src(a) if a is not None else None}` while the table was created with the overrides {sorted(map(str, cre))}: the values are converted to a type "
                                f"the table does not have and then again implicitly on INSERT (a DOUBLE converted directly instead of through its shortest text, a Date guard applied to a rendering)"))
    rep.floor("R18.10 loaders with CREATE TABLE and a cast select list", n10, 1)
    # ---- R18.11: the source types the guards are chosen by are the ENGINE's view of the source columns ----
    rep.rule("R18.11", "every loader that hands `source_types` to the select-list builder takes them from DuckDB's own description of the source (DESCRIBE / cursor description): "
                       "a type guessed on the pandas side (an object column with a None in it is not `string`) skips the string guards the CSV loader applies to the same text")
    n11 = 0
    for f in P.iter_functions():
        if not f.qualname.startswith("vtlengine.duckdb_transpiler.io."):
            continue
        for c in walk_no_nested(f.node):
            if not isinstance(c, ast.Call):
                continue
            for t in P.resolve_call(f, c):
                callee = P.functions.get(t)
                if callee is None or "source_types" not in callee.params or callee.qualname == f.qualname:
                    continue
                cps = [x for x in callee.params if x not in ("self", "cls")]
                i = cps.index("source_types")
                arg = next((k.value for k in c.keywords if k.arg == "source_types"), c.args[i] if i < len(c.args) else None)
                if arg is None:
                    continue
                n11 += 1

                def from_engine(e: ast.AST, fn: Any, depth: int = 0) -> bool:
                    for x in ast.walk(e):
                        if isinstance(x, ast.Attribute) and (x.attr == "description" or (x.attr == "types" and isinstance(x.value, ast.Name) and x.value.id not in ("pd", "pandas", "api"))):  # cursor description / relation.types (not pandas dtypes / pd.api.types)
                            return True
                        if isinstance(x, ast.Call) and isinstance(x.func, ast.Attribute) and x.func.attr in ("execute", "sql") and x.args and "DESCRIBE" in src(x.args[0]).upper():
                            return True
                        if isinstance(x, ast.Call) and depth < 2:
                            for tq in P.resolve_call(fn, x):
                                g_ = P.functions.get(tq)
                                if g_ is not None and g_.module.name.startswith("vtlengine.duckdb_transpiler.io") and any(from_engine(st, g_, depth + 1) for st in g_.node.body):
                                    return True
                    return False
                exprs = [arg]
                if isinstance(arg, ast.Name):
                    exprs = [d.value for d in walk_no_nested(f.node) if isinstance(d, (ast.Assign, ast.AnnAssign)) and d.value is not None
                             and any(arg.id in {n_.id for n_ in ast.walk(t_) if isinstance(n_, ast.Name)} for t_ in (d.targets if isinstance(d, ast.Assign) else [d.target]))]
                ok = bool(exprs) and all(from_engine(e_, f) for e_ in exprs)
                rep.instance("R18.11", f"source-types/{f.qualname}", nontrivial=True, sample={"loader": f.qualname, "source_types": src(arg)[:60], "from_engine_description": ok})
                if not ok:
                    rep.add(Finding("R18.11", f"R18.11/source-types/{f.qualname}", f.module.rel, c.lineno, f.qualname,
                                    f"the source types given to {callee.name}() (`{src(arg)[:60]}`) are not read from DuckDB's description of the source (DESCRIBE / cursor description): how DuckDB "
                                    f"scans a column decides which guards apply - an object-dtype column holding text and a None is scanned as VARCHAR, so the strict Date format check must apply "
                                    f"to it as it does to the same text in a CSV"))
    rep.floor("R18.11 loaders passing source types", n11, 2)
    rep.assumptions = ["a CSV value and a string-typed DataFrame/Parquet value with the same text must meet the same rejecting guards",
                       "guards are recognised by error(), regexp_matches and FLOOR/TRUNC integrality tests in the emitted SQL"]


def fetch_time_format(P: Program, rep: Report, rule: str) -> None:
    """_build_dataset_fetch_select evaluated against a model connection whose probe answers are computed from model rows.  Shared with C19:
    an accepted Date value is returned as the instant that was loaded."""
    from sa.e6 import Unmodelled as _Unm
    fs = P.func("vtlengine.duckdb_transpiler.io._execution._build_dataset_fetch_select")
    import datetime as _dt
    from sa import sqlconc as _sc, sqlexpr as _se
    # the model table: D_frac holds a time of day only in the sub-second fraction of one value, D_hm an ordinary time, D_date midnights only
    rows = {"D_frac": [_dt.datetime(2020, 1, 5, 0, 0, 0, 250000), _dt.datetime(2020, 1, 6), None], "D_hm": [_dt.datetime(2020, 1, 5), _dt.datetime(2020, 1, 6, 13, 30), None],
            "D_date": [_dt.datetime(2020, 1, 5), _dt.datetime(2020, 1, 6), None]}
    has_time = {c_: any(v is not None and (v.hour, v.minute, v.second, v.microsecond) != (0, 0, 0, 0) for v in vs) for c_, vs in rows.items()}

    class _Rel:
        def __init__(self, description: Any = None, row: Any = None) -> None:
            self.description, self._row = description, row

        def fetchone(self) -> Any:
            return self._row

        def fetchall(self) -> Any:
            return [self._row] if self._row is not None else []

    class _Conn:
        def __init__(self) -> None:
            self.queries: List[str] = []

        def execute(self, q: str, *a: Any) -> "_Rel":
            self.queries.append(q)
            if "LIMIT 0" in q.upper():
                return _Rel(description=[("Id_1", "BIGINT")] + [(c_, "TIMESTAMP") for c_ in rows])
            # a probe: one answer per top-level select item, each `EXISTS (SELECT … FROM <table> WHERE <row predicate>)`; the predicate is evaluated on the model rows
            body = q.strip()[len("SELECT"):] if q.strip().upper().startswith("SELECT") else q
            items, depth, cur = [], 0, ""
            for ch in body:
                depth += ch == "("
                depth -= ch == ")"
                if ch == "," and depth == 0:
                    items.append(cur)
                    cur = ""
                else:
                    cur += ch
            items.append(cur)
            ans = []
            # a row-wise probe: `SELECT <flag>, ... FROM <table> [WHERE <pred>] [LIMIT n]` - evaluated over the model rows in their physical order
            last = items[-1]
            mrow = re.match(r'(.*?)\s+FROM\s+"[^"]+"\s*(?:WHERE\s+(.*?))?\s*(?:LIMIT\s+(\d+))?\s*$', last, re.I | re.S)
            if mrow and not any(re.match(r"\s*EXISTS\b", it_, re.I) for it_ in items):
                flag_items = items[:-1] + [mrow.group(1)]
                try:
                    exprs = [_se.parse(re.sub(r'\s+AS\s+"[^"]+"\s*$', "", fi, flags=re.I)) for fi in flag_items]
                    wpred = _se.parse(mrow.group(2)) if mrow.group(2) else None
                except _se.ParseError as ex:
                    raise AnalysisError(f"{rule}: row-wise probe outside the SQL evaluator's language: {ex} [{q[:100]}]")
                out_rows = []
                for i_ in range(3):
                    env_ = {k_: rows[c_][i_] for c_ in rows for k_ in (c_, f'"{c_}"')}

                    def _evq(e_: Any) -> Any:
                        try:
                            return _sc.ev(e_, env_, {})
                        except (_sc.SqlError, AttributeError, TypeError):
                            return None  # NULL propagation on a NULL timestamp
                    if wpred is not None and _evq(wpred) is not True:
                        continue
                    out_rows.append(tuple(_evq(e_) for e_ in exprs))
                lim = int(mrow.group(3)) if mrow.group(3) else None
                out_rows = out_rows[:lim] if lim is not None else out_rows
                return _Rel(row=out_rows[0] if out_rows else None)
            for it_ in items:
                m_ = re.match(r'\s*EXISTS\s*\(\s*SELECT\s+.+?\s+FROM\s+"[^"]+"\s+WHERE\s+(.*)\)\s*(?:AS\s+"[^"]+")?\s*$', it_, re.I | re.S)
                if not m_:
                    raise AnalysisError(f"{rule}: probe query not understood by the model: `{q[:100]}`")
                try:
                    pred = _se.parse(m_.group(1))
                except _se.ParseError as ex:
                    raise AnalysisError(f"{rule}: probe predicate outside the SQL evaluator's language: {ex} [{m_.group(1)[:100]}]")
                cols = [c_ for c_ in rows if f'"{c_}"' in m_.group(1)]
                hit = False
                for i_ in range(3):
                    try:
                        if _sc.ev(pred, {k_: rows[c_][i_] for c_ in cols for k_ in (c_, f'"{c_}"')}, {}) is True:
                            hit = True
                    except (_sc.SqlError, _se.ParseError, AttributeError, TypeError) as ex:
                        if all(rows[c_][i_] is None for c_ in cols):
                            continue  # SQL NULL propagation on the all-NULL row: the row does not satisfy the predicate
                        raise AnalysisError(f"{rule}: probe predicate not evaluable on the model row: {ex} [{m_.group(1)[:100]}]")
                ans.append(hit)
            return _Rel(row=tuple(ans))
    dsm = ExternalObj({"components": {"Id_1": None, **{c_: None for c_ in rows}}, "name": "DS_r"})
    try:
        sel = Interp(P).call(fs, {"conn": _Conn(), "result_name": "DS_r", "ds": dsm})
    except (_Unm, Raised) as e:
        raise AnalysisError(f"{rule}: _build_dataset_fetch_select outside the evaluator's language: {e}")
    sel = " ".join(str(sel).split())
    rep.instance(rule, "per-column-time-format", nontrivial=True, sample={"select": sel[:260]})
    # the select item of a column = the text that ends with `AS "<col>"` and starts after the previous item's alias (items are in component order)
    ends = {c_: sel.find(f'AS "{c_}"') for c_ in has_time}
    if any(v < 0 for v in ends.values()):
        raise AnalysisError(f"{rule}: the fetch SELECT does not alias the TIMESTAMP columns by name: `{sel[:120]}`")
    order = sorted(ends, key=lambda k: ends[k])
    seg: Dict[str, str] = {}
    prev_end = 0
    for c_ in order:
        seg[c_] = sel[prev_end:ends[c_]]
        prev_end = ends[c_] + len(f'AS "{c_}"')
    for c_, want_t in has_time.items():
        txt = seg[c_]
        got_t = "%H" in txt
        if not txt or got_t != want_t:
            rep.add(Finding(rule, f"{rule}/per-column-time-format/{c_}", fs.module.rel, fs.node.lineno, fs.qualname,
                            f"a result with three TIMESTAMP columns, D_hm holding a time of day, D_frac a value 00:00:00.25 (a time only in the sub-second fraction) and D_date only midnights: "
                            f"{c_} is rendered {'with' if got_t else 'without'} a time part (`{txt[:90]}`); each column must be decided by its own content - a dropped fraction is a different "
                            f"instant, and the CSV loader stores every Date column as TIMESTAMP, so the same table given as CSV and as a DataFrame would otherwise come back as "
                            f"`2020-05-05T00:00:00` and `2020-05-05`"))


def integer_carrier_exact(P: Program, rep: Report, rule: str) -> None:
    """An Integer component handed over in an exact integer column (int64 DataFrame column, native Parquet) reaches the table without passing
    through a binary float (the SQL the DataFrame loader generates is evaluated from its source and its value branch inspected).  Shared
    with C01: every scalar operator works on the loaded value, so 2**53+1 loaded as 2**53 makes `DS_1 + 1` and `DS_1 = DS_2` wrong."""
    f_df = P.func(f"{IO}._build_dataframe_select_columns")
    n = 0
    for st in ("BIGINT", "INTEGER", "UBIGINT", "HUGEINT"):
        comp = ExternalObj({"role": "Measure", "nullable": True, "data_type": ClassVal("vtlengine.DataTypes.Integer"), "name": "C"})
        try:
            sqlb = Interp(P, externals={"get_decimal_type": lambda: "DECIMAL(28,10)"}).call(f_df, {"components": {"C": comp}, "df_columns": ["C"], "source_types": {"C": st}})[0]
        except Raised as r:
            raise AnalysisError(f"{rule}: _build_dataframe_select_columns raised {r.exc} for Integer/{st}")
        n += 1
        rep.instance(rule, f"carrier/Integer/{st}", nontrivial=True, sample={"source_type": st, "sql": " ".join(sqlb.split())[:200]})
        value_part = sqlb[sqlb.upper().rfind(" ELSE ") + 6:] if " ELSE " in sqlb.upper() else sqlb
        if re.search(r'(?:AS\s+|::\s*)(DOUBLE|FLOAT|REAL|FLOAT4|FLOAT8)\b', value_part, re.I):
            rep.add(Finding(rule, f"{rule}/carrier/Integer/{st}", f_df.module.rel, f_df.node.lineno, f_df.qualname,
                            f"Integer component from a {st} source column is stored through `{' '.join(value_part.split())[:120]}`: the value passes through a binary float with 53 "
                            f"significant bits, so 9007199254740993 is loaded as 9007199254740992 - `DS_1 + 1`, `DS_1 = DS_2` and identifier matching then work on a neighbouring value"))
    rep.floor(f"{rule} integer source types", n, 4)


def timestamp_decision_existential(P: Program, rep: Report, rule: str) -> None:
    """_detect_date_type_overrides: a Date column of a DataFrame is stored as TIMESTAMP iff SOME value has a time part (evaluated over value
    lists; vectorised formulations decided by their reduction).  Shared with C06 / C33: a decision taken from the first value makes the
    stored values - and every range window ordered by them - depend on the order of the input rows."""
    from sa.e6 import Unmodelled as _Unm
    rep.rule(rule, "DataFrame Date column: TIMESTAMP iff some value has a time part (existential decision over all values)")
    dd = P.func("vtlengine.duckdb_transpiler.io._io._detect_date_type_overrides")
    # decided by evaluating the function (finite evaluator) on model columns: all dates / one date-time in first, middle, last position
    from sa.e6 import Unmodelled as _Unm

    class _Col:
        def __init__(self, vals: List[Any]) -> None:
            self.vals = vals

        def dropna(self) -> List[Any]:
            return [v for v in self.vals if v is not None]

        def __iter__(self):
            return iter(self.vals)

    class _DF:
        def __init__(self, cols: Dict[str, List[Any]]) -> None:
            self.cols = cols
            self.columns = list(cols)

        def __getitem__(self, k: str) -> "_Col":
            return _Col(self.cols[k])
    D, T_ = "2020-01-15", "2020-01-16 10:30:00"
    cases = {"all-dates": ([D, D, D], False), "first-has-time": ([T_, D, D], True), "middle-has-time": ([D, T_, D], True), "last-has-time": ([D, D, T_], True),
             "all-have-time": ([T_, T_], True), "iso-T-separator": ([D, "2020-01-16T10:30:00"], True), "nulls-and-time": ([None, D, None, T_], True)}
    comp = ExternalObj({"role": "Measure", "nullable": True, "data_type": ClassVal("vtlengine.DataTypes.Date"), "name": "C"})
    other = ExternalObj({"role": "Measure", "nullable": True, "data_type": ClassVal("vtlengine.DataTypes.String"), "name": "S"})
    for label, (vals, want) in cases.items():
        try:
            got = Interp(P).call(dd, {"df": _DF({"C": vals, "S": [T_]}), "components": {"C": comp, "S": other}})
        except (_Unm, Raised) as e:
            # a vectorised (pandas) formulation is outside the evaluator: decide by the reduction it uses
            reductions = {c_.func.attr for c_ in ast.walk(dd.node) if isinstance(c_, ast.Call) and isinstance(c_.func, ast.Attribute) and c_.func.attr in ("all", "any")} | \
                {c_.func.id for c_ in ast.walk(dd.node) if isinstance(c_, ast.Call) and isinstance(c_.func, ast.Name) and c_.func.id in ("all", "any")}
            rep.instance(rule, "existential-decision/by-reduction", nontrivial=True, sample={"reductions": sorted(reductions), "not evaluated because": str(e)[:80]})
            if "all" in reductions:
                rep.add(Finding(rule, "R18.4/existential-decision", dd.module.rel, dd.node.lineno, dd.qualname,
                                f"the TIMESTAMP decision for a DataFrame Date column is not `some value has a time part` (reductions used: {sorted(reductions)}): "
                                f"a column mixing plain dates and date-times is stored as DATE and the times are silently dropped, while the CSV loader (always TIMESTAMP) keeps them"))
            elif "any" not in reductions and any((isinstance(c_, ast.Attribute) and c_.attr in ("first_valid_index", "iloc", "iat", "head", "sample")) or
                                                 (isinstance(c_, ast.Subscript) and isinstance(c_.slice, ast.Constant) and isinstance(c_.slice.value, int)) for c_ in ast.walk(dd.node)):
                rep.add(Finding(rule, "R18.4/existential-decision", dd.module.rel, dd.node.lineno, dd.qualname,
                                "the TIMESTAMP decision for a DataFrame Date column looks at a value picked by position (first valid value / iloc / head) instead of asking whether SOME value has a "
                                "time part: a column whose first value is a plain date is stored as DATE and the times of the later values are dropped, while the CSV loader keeps them"))
                break
            elif "any" not in reductions:
                raise AnalysisError(f"{rule}: _detect_date_type_overrides is neither evaluable ({e}) nor an any()/all() reduction")
            break
        rep.instance(rule, f"existential-decision/{label}", nontrivial=True, sample={"values": vals, "overrides": got})
        is_ts = isinstance(got, dict) and str(got.get("C", "")).upper() == "TIMESTAMP"
        if is_ts != want or (isinstance(got, dict) and "S" in got):
            rep.add(Finding(rule, "R18.4/existential-decision", dd.module.rel, dd.node.lineno, dd.qualname,
                            f"DataFrame Date column with the values {vals}: stored as {'TIMESTAMP' if is_ts else 'DATE'} (overrides = {got}); it must be TIMESTAMP exactly when SOME value has a "
                            f"time part: a column mixing plain dates and date-times stored as DATE silently drops the times, while the CSV loader (always TIMESTAMP) keeps them"))
            break
