"""C01 - element-wise operators (DESIGN §3 C01).  Values computed by DuckDB are not decided; decided are:

R01.1 dispatch exhaustiveness: every operator token the semantic layer accepts (keys of the *_MAPPING tables of Utils)
      has an SQL generation path - a registry entry, a visit_<Node>_<token> method, or an explicit `tokens.X` branch in
      the transpiler; otherwise OperatorRegistry.sql silently emits TOKEN(args)
R01.2 null propagation = strictness: every registry template / typed override / custom generator of the element-wise
      operators is NULL whenever one of its operands is NULL (nullness abstract interpretation of the parsed SQL, macros
      analysed through their own bodies); nvl, isnull, and/or are the declared non-strict set; between is checked as written
      in _between_expr
R01.3 three-valued logic: the SQL of and/or/xor/not evaluated over {T,F,N} equals the VTL (Kleene) truth tables
R01.7 dataset-scalar arithmetic: _build_ds_scalar_binary is evaluated (E6) for `/` with the dataset on either side and scalar operands
      {2, 0, 2.5, -1, NULL, a scalar variable}: the expression applied to each measure is the one the operator registry builds (whose DIV
      template R01.4 checks) with the operands in the written order, or a raw SQL division whose DIVISOR is a non-zero numeric
      literal; a raw division by a column or by zero skips the zero-divisor error and yields inf / NULL
R01.4 division by zero: the DIV template goes through a macro whose zero-divisor branch calls error() with a text that
      the query-error mapper turns into a catalogued RunTimeError
R01.5 dataset-level if-then-else keeps a datapoint iff the side selected by the condition has it, where a NULL condition
      selects the else side (exactly like the CASE that computes the values): every row filter of _build_dataset_if is
      evaluated in three-valued logic over condition ∈ {T,F,N} × partner present/absent and compared with that table
"""
from __future__ import annotations

import ast
import re
from typing import Dict, List, Optional, Set, Tuple

from sa import registryx, sqlexpr, sqlx
from sa.checks.c26 import load_catalogue
from sa.checks.c32 import decision_list, guards_hold, holds
from sa.core import AnalysisError, Finding, Program, Report, program, src, walk_no_nested

UTILS = "vtlengine.Utils"
TOKMOD = "vtlengine.AST.Grammar.tokens"
TRPKG = "vtlengine.duckdb_transpiler.Transpiler"

# operand positions that must be strict, per token NAME in tokens.py ("*" = all placeholders of the template)
STRICT: Dict[str, str] = {k: "*" for k in (
    "PLUS MINUS MULT DIV MOD EQ NEQ GT LT GTE LTE CONCAT POWER LOG DATEDIFF CHARSET_MATCH CEIL FLOOR ABS EXP LN SQRT NOT "
    "LEN TRIM LTRIM RTRIM UCASE LCASE YEAR MONTH DAYOFMONTH DAYOFYEAR DAYTOYEAR DAYTOMONTH YEARTODAY MONTHTODAY").split()}
STRICT.update({"ROUND": "0", "TRUNC": "0", "SUBSTR": "0", "REPLACE": "0", "INSTR": "01", "IN": "0", "NOT_IN": "0"})
NON_STRICT_BY_DEFINITION = {"NVL": "nvl replaces null", "ISNULL": "tests for null", "AND": "Kleene logic (R01.3)", "OR": "Kleene logic (R01.3)",
                            "XOR": "decided by its truth table (R01.3)"}
# semantic tokens with no SQL generation path, by design
NO_SQL_PATH: Dict[str, str] = {
    "PIVOT": "pivot is not implemented by the engine (semantic stub only)",
    "IDENTIFIER": "role setter: handled inside the calc clause", "MEASURE": "role setter: handled inside the calc clause",
    "ATTRIBUTE": "role setter: handled inside the calc clause", "VIRAL_ATTRIBUTE": "role setter: handled inside the calc clause",
}
KLEENE = {
    "AND": lambda a, b: False if (a is False or b is False) else (None if (a is None or b is None) else True),
    "OR": lambda a, b: True if (a is True or b is True) else (None if (a is None or b is None) else False),
    "XOR": lambda a, b: None if (a is None or b is None) else (a != b),
}


def token_values(P: Program) -> Dict[str, str]:
    m = P.module(TOKMOD)
    out = {}
    for k, v in m.assigns.items():
        if isinstance(v, ast.Constant) and isinstance(v.value, str):
            out[k] = v.value
    if len(out) < 100:
        raise AnalysisError("tokens.py: constants not found")
    return out


def run(rep: Report, tier: str) -> None:
    P = program()
    rep.explanation = ("The operator registry is extracted as a (token, arity/type) → SQL template table (loops unrolled, custom generators "
                       "lowered); templates and macro bodies are parsed by a small SQL expression parser and evaluated by a nullness "
                       "abstract interpretation and an exact three-valued evaluator; the semantic operator tables of Utils are compared "
                       "with the registry / visit methods / explicit token branches of the transpiler.")
    for rid, text in [("R01.1", "every semantic operator token has an SQL generation path"),
                      ("R01.2", "element-wise templates are NULL-strict in every operand (macros analysed through their bodies)"),
                      ("R01.3", "and/or/xor/not SQL equals the VTL three-valued truth tables"),
                      ("R01.4", "division by zero: DIV → macro → error() text → mapped to a catalogued RunTimeError"),
                      ("R01.5", "if-then-else row filters: null condition selects the else side (3VL table per branch shape)")]:
        rep.rule(rid, text)
    toks = token_values(P)
    by_value = {}
    for k, v in toks.items():
        by_value.setdefault(v, []).append(k)
    reg = registryx.extract(P)
    macros = {k.lower(): v for k, v in sqlx.load_macros(P).items()}
    reg_tokens = {r.token for r in reg}

    # ---- R01.1 -----------------------------------------------------------------------------------------
    um = P.module(UTILS)
    sem: Dict[str, Set[str]] = {}
    for tab in ("BINARY_MAPPING", "UNARY_MAPPING", "AGGREGATION_MAPPING", "ANALYTIC_MAPPING", "SET_MAPPING", "REGULAR_AGGREGATION_MAPPING",
                "ROLE_SETTER_MAPPING"):  # JOIN_MAPPING: one generic handler keyed by node.op, decided under C04
        d = um.assigns.get(tab)
        if not isinstance(d, ast.Dict):
            raise AnalysisError(f"anchor vanished: Utils.{tab}")
        for k in d.keys:
            if isinstance(k, ast.Name):
                sem.setdefault(k.id, set()).add(tab)
    # transpiler-side evidence
    visit_suffixes: Set[str] = set()
    branch_tokens: Set[str] = set()
    for mod in P.modules.values():
        if not mod.name.startswith(TRPKG):
            continue
        for n in ast.walk(mod.tree):
            if isinstance(n, ast.FunctionDef) and n.name.startswith("visit_"):
                parts = n.name.split("_", 2)
                if len(parts) == 3:
                    visit_suffixes.add(parts[2])
            if isinstance(n, ast.Attribute) and isinstance(n.value, ast.Name) and n.value.id == "tokens" and mod.name != f"{TRPKG}.operators":
                branch_tokens.add(n.attr)
            if isinstance(n, ast.Name) and n.id in toks and mod.name != f"{TRPKG}.operators" and isinstance(n.ctx, ast.Load):
                branch_tokens.add(n.id)
    for name, tabs in sorted(sem.items()):
        val = toks.get(name)
        if val is None:
            raise AnalysisError(f"Utils mapping key {name} is not a tokens.py constant")
        paths = []
        if val in reg_tokens:
            paths.append("registry")
        if val in visit_suffixes or val.replace(" ", "_") in visit_suffixes:
            paths.append("visit-method")
        if name in branch_tokens:
            paths.append("explicit-branch")
        rep.instance("R01.1", name, nontrivial=True, sample={"token": name, "value": val, "tables": sorted(tabs), "paths": paths}
                     if name in ("PLUS", "CAST", "TIMESHIFT", "PIVOT") else None)
        if not paths:
            if name in NO_SQL_PATH:
                rep.exemption("R01.1", name, NO_SQL_PATH[name])
                continue
            rep.add(Finding("R01.1", f"R01.1/{name}", um.rel, um.assigns[sorted(tabs)[0]].lineno, f"{UTILS}.{sorted(tabs)[0]}",
                            f"operator token {name} ({val!r}) is accepted by semantic analysis ({', '.join(sorted(tabs))}) but has no SQL "
                            f"generation path (no registry entry, no visit_*_{val} method, no tokens.{name} branch in the transpiler): "
                            f"OperatorRegistry.sql falls back to `{val.upper()}(…)`"))
    rep.floor("semantic operator tokens", len(sem), 80)

    # ---- R01.2 -----------------------------------------------------------------------------------------
    nstrict = 0
    def token_name(r: registryx.RegEntry) -> Optional[str]:
        if r.token_name in toks:
            return r.token_name
        cands = by_value.get(r.token, [])
        for c in cands:
            if c in STRICT or c in NON_STRICT_BY_DEFINITION:
                return c
        return cands[0] if cands else None
    for r in reg:
        tn = token_name(r)
        if tn is None or tn not in STRICT:
            continue
        want = STRICT[tn]
        for n_ops, tmpl in sorted(r.templates.items()):
            try:
                tree = sqlexpr.parse(tmpl)
            except sqlexpr.ParseError as e:
                raise AnalysisError(f"registry template for {tn} not parseable: {tmpl!r}: {e}")
            phs = sorted(set(re.findall(r"\{(\d)\}", tmpl)))
            for ph in phs:
                if want != "*" and ph not in want:
                    continue
                nl = sqlexpr.Nullness(macros, {f"{{{ph}}}": sqlexpr.NULL})
                v = nl.val(tree)
                nstrict += 1
                key = f"{tn}/{r.kind}/{n_ops}/{{{ph}}}"
                rep.instance("R01.2", key, nontrivial=True,
                             sample={"token": tn, "variant": r.kind, "template": tmpl, "null_operand": f"{{{ph}}}", "result": v}
                             if tn in ("DIV", "EQ", "INSTR", "YEAR") else None)
                if v not in (sqlexpr.NULL, sqlexpr.BOTTOM):
                    rep.add(Finding("R01.2", f"R01.2/{tn}/{r.kind}/{{{ph}}}", f"src/vtlengine/duckdb_transpiler/Transpiler/operators.py", r.line,
                                    f"registry[{tn}]",
                                    f"{tn} ({r.kind}) is emitted as `{tmpl}`: with operand {{{ph}}} NULL the result is not necessarily NULL "
                                    f"(abstract value {v}); VTL requires null to propagate"))
    rep.floor("strictness obligations", nstrict, 70)
    # between as written
    tr = P.cls(f"{TRPKG}.SQLTranspiler")
    be = tr.methods.get("_between_expr")
    if be is None:
        raise AnalysisError("anchor vanished: SQLTranspiler._between_expr")
    rets = [n.value for n in walk_no_nested(be.node) if isinstance(n, ast.Return)]
    sk = sqlx.skeleton_of(rets[0]) if rets else None
    if not sk:
        raise AnalysisError("_between_expr: returned SQL not a string expression")
    tmpl = sk[0]
    tree = sqlexpr.parse(tmpl)
    for h in sorted(set(sk[1])):
        nl = sqlexpr.Nullness(macros, {f"{sqlx.HOLE_L}{h}{sqlx.HOLE_R}": sqlexpr.NULL})
        v = nl.val(tree)
        rep.instance("R01.2", f"BETWEEN/{h}", nontrivial=True, sample={"template": tmpl[:90], "null_operand": h, "result": v})
        if v != sqlexpr.NULL:
            rep.add(Finding("R01.2", f"R01.2/BETWEEN/{h}", be.module.rel, be.node.lineno, be.qualname,
                            f"between is emitted as `{tmpl[:80]}…`: with `{h}` NULL the result is {v}, not NULL"))
    # no visit path uses the plain (non-strict) registry BETWEEN template
    for f in P.iter_functions():
        if f.module.name.startswith(TRPKG):
            for n in walk_no_nested(f.node):
                if isinstance(n, ast.Call) and src(n.func) == "registry.sql" and n.args and src(n.args[0]) in ("tokens.BETWEEN", "BETWEEN"):
                    rep.add(Finding("R01.2", f"R01.2/BETWEEN/registry-template-used/{f.qualname}", f.module.rel, n.lineno, f.qualname,
                                    "the plain registry BETWEEN template (`x BETWEEN a AND b`) is not NULL-strict in its bounds; "
                                    "_between_expr must be used"))

    # ---- R01.3 -----------------------------------------------------------------------------------------
    vals = [True, False, None]
    for tn in ("AND", "OR", "XOR"):
        ent = [r for r in reg if token_name(r) == tn and 2 in r.templates]
        if not ent:
            raise AnalysisError(f"registry: no binary entry for {tn}")
        tmpl = ent[0].templates[2]
        tree = sqlexpr.parse(tmpl)
        for a in vals:
            for b in vals:
                try:
                    got = sqlexpr.eval3(tree, {"{0}": a, "{1}": b}, macros)
                except sqlexpr.ParseError as e:
                    raise AnalysisError(f"{tn} template `{tmpl}` not evaluable in 3VL: {e}")
                want = KLEENE[tn](a, b)
                rep.instance("R01.3", f"{tn}/{a}/{b}", nontrivial=(a is None or b is None), sample={"op": tn, "a": a, "b": b, "sql": got, "vtl": want}
                             if (a is None and b is True) else None)
                if got != want:
                    rep.add(Finding("R01.3", f"R01.3/{tn}/{a}/{b}", "src/vtlengine/duckdb_transpiler/Transpiler/operators.py", ent[0].line,
                                    f"registry[{tn}]", f"{tn.lower()}({a}, {b}) is emitted as `{tmpl}` which evaluates to {got}; VTL three-valued logic says {want}"))
    ent = [r for r in reg if token_name(r) == "NOT" and 1 in r.templates]
    if not ent:
        raise AnalysisError("registry: no entry for NOT")
    tree = sqlexpr.parse(ent[0].templates[1])
    for a in vals:
        got = sqlexpr.eval3(tree, {"{0}": a}, macros)
        want = None if a is None else (not a)
        rep.instance("R01.3", f"NOT/{a}", nontrivial=a is None)
        if got != want:
            rep.add(Finding("R01.3", f"R01.3/NOT/{a}", "src/vtlengine/duckdb_transpiler/Transpiler/operators.py", ent[0].line, "registry[NOT]",
                            f"not({a}) evaluates to {got}; VTL says {want}"))

    # ---- R01.4 -----------------------------------------------------------------------------------------
    cat, _ = load_catalogue(P)
    div = [r for r in reg if token_name(r) == "DIV" and 2 in r.templates]
    if not div:
        raise AnalysisError("registry: no entry for DIV")
    tmpl = div[0].templates[2]
    used = re.findall(r"\b(vtl_\w+)\s*\(", tmpl)
    rep.instance("R01.4", "div-template", nontrivial=True, sample={"template": tmpl})
    mapper = decision_list(P, P.func("vtlengine.duckdb_transpiler.io._execution._map_query_error"))
    ok = False
    why = f"the DIV template `{tmpl}` does not go through a vtl_* macro: DuckDB returns NULL/inf for x/0 instead of raising"
    for mname in used:
        m = macros.get(mname.lower())
        if m is None:
            why = f"macro {mname} used by the DIV template is not defined"
            continue
        # a CASE branch conditioned on <second param> = 0 that calls error('…')
        mm = re.search(r"WHEN\s+(\w+)\s*=\s*0\s+THEN\s+error\(\s*'((?:[^']|'')*)'", m.body, re.I)
        if not mm or mm.group(1) != (m.params[1] if len(m.params) > 1 else None):
            why = f"macro {mname} has no `WHEN <divisor> = 0 THEN error('…')` branch on its second parameter"
            continue
        text = mm.group(2).lower()
        claimed = next(((c, cls, code) for c, cls, code, _, gs in mapper if holds(c, text) and guards_hold(P, gs, f"SELECT {mname}(a, b) FROM t")), None)
        rep.instance("R01.4", "div-error-mapped", nontrivial=True, sample={"macro": mname, "error_text": mm.group(2), "mapped_to": claimed[2] if claimed else None})
        if claimed is None:
            why = f"error text {mm.group(2)!r} of {mname} is not matched by any branch of _map_query_error"
        elif claimed[1] != "RunTimeError" or claimed[2] not in cat:
            why = f"error text of {mname} maps to {claimed[1]} {claimed[2]} (not a catalogued RunTimeError)"
        else:
            ok = True
    if not ok:
        rep.add(Finding("R01.4", "R01.4/division-by-zero", "src/vtlengine/duckdb_transpiler/Transpiler/operators.py", div[0].line, "registry[DIV]", why))
    # ---- R01.7 every dataset-scalar division reaches the registry's DIV template (or divides by a non-zero literal) ----
    rep.rule("R01.7", "dataset-scalar operators: the per-measure expression is the operator registry's (DIV: the zero-checking macro) in both operand orders, or a raw division by a non-zero literal")
    _ds_scalar_division(P, rep)
    # ---- R01.5 -----------------------------------------------------------------------------------------
    bif = P.func(f"{TRPKG}.SQLTranspiler._build_dataset_if")
    side_of: Dict[str, str] = {}
    for n in walk_no_nested(bif.node):
        if isinstance(n, ast.Assign) and len(n.targets) == 1 and isinstance(n.targets[0], ast.Name) and isinstance(n.value, ast.Call) \
                and src(n.value.func).endswith("_left_join_dataset") and n.value.args:
            a0 = src(n.value.args[0])
            side_of[n.targets[0].id] = "then" if a0.endswith("thenOp") else ("else" if a0.endswith("elseOp") else "?")
    wheres = [n for n in walk_no_nested(bif.node) if isinstance(n, ast.Call) and isinstance(n.func, ast.Attribute) and n.func.attr == "where" and n.args]
    if not wheres or set(side_of.values()) != {"then", "else"}:
        raise AnalysisError("_build_dataset_if: join-id variables / builder.where filters not found (anchor changed)")
    HL, HR = sqlx.HOLE_L, sqlx.HOLE_R

    def _inline(text: str, holes: List[str], scenario: Set[str], depth: int = 0) -> str:
        """replace holes that are locals defined from the join-id variables (e.g. then_hit = f"{then_join_id} IS NOT NULL" if
        then_join_id else "TRUE") by their definition under `scenario` (the set of sides that are dataset branches)"""
        for h in set(holes):
            if h in side_of or depth > 3:
                continue
            ds_ = [n.value for n in walk_no_nested(bif.node) if isinstance(n, ast.Assign) and any(isinstance(t, ast.Name) and t.id == h for t in n.targets)]
            if len(ds_) != 1:
                continue
            d = ds_[0]
            if isinstance(d, ast.IfExp) and isinstance(d.test, ast.Name) and d.test.id in side_of:
                d = d.body if side_of[d.test.id] in scenario else d.orelse
            sk2 = sqlx.skeleton_of(d)
            if not sk2 or not any(x in side_of for x in sk2[1]) and sk2[1]:
                continue
            if not sk2[1] and sk2[0].strip().upper() not in ("TRUE", "FALSE"):
                continue
            text = text.replace(f"{HL}{h}{HR}", "(" + _inline(sk2[0], sk2[1], scenario, depth + 1) + ")")
        return text
    jobs: List[Tuple[ast.AST, str, Set[str]]] = []
    for w in wheres:
        sk = sqlx.skeleton_of(w.args[0])
        if not sk:
            raise AnalysisError("_build_dataset_if: where() argument is not a string expression")
        text0, holes0 = sk
        indirect = [h for h in set(holes0) if h not in side_of]
        if len(indirect) <= 1:
            jobs.append((w, text0, {side_of[h] for h in set(holes0) if h in side_of}))
        else:
            seen_txt = set()
            for scenario in ({"then", "else"}, {"then"}, {"else"}):
                t2 = _inline(text0, holes0, scenario)
                if (t2, tuple(sorted(scenario))) not in seen_txt:
                    seen_txt.add((t2, tuple(sorted(scenario))))
                    jobs.append((w, t2, set(scenario)))
    for w, text, scen in jobs:
        holes = re.findall(re.escape(HL) + r"(.*?)" + re.escape(HR), text)
        tree = sqlexpr.parse(text)
        cond_holes = [h for h in set(holes) if h not in side_of]
        if len(cond_holes) != 1:
            raise AnalysisError(f"_build_dataset_if filter `{text}`: condition hole not identified ({cond_holes})")
        ch = cond_holes[0]
        present = {side_of[h] for h in set(holes) if h in side_of} | (scen if len(jobs) > len(wheres) else set())
        for C in (True, False, None):
            for t_hit in ((True, False) if "then" in present else (True,)):
                for e_hit in ((True, False) if "else" in present else (True,)):
                    env = {f"{sqlx.HOLE_L}{ch}{sqlx.HOLE_R}": C}
                    for h, sd in side_of.items():
                        env[f"{sqlx.HOLE_L}{h}{sqlx.HOLE_R}"] = (True if (t_hit if sd == "then" else e_hit) else None)
                    try:
                        got = sqlexpr.eval3(tree, env, macros)
                    except sqlexpr.ParseError as e:
                        raise AnalysisError(f"_build_dataset_if filter `{text}` not evaluable: {e}")
                    want = t_hit if C is True else e_hit
                    key = f"{'+'.join(sorted(present))}/cond={C}/then={'hit' if t_hit else 'miss'}/else={'hit' if e_hit else 'miss'}"
                    rep.instance("R01.5", key, nontrivial=C is None, sample={"filter": text[:80], "cond": C, "kept": got is True, "expected": want} if C is None and not t_hit else None)
                    if (got is True) != want:
                        rep.add(Finding("R01.5", f"R01.5/{'+'.join(sorted(present))}/cond={C}", bif.module.rel, w.lineno, bif.qualname,
                                        f"row filter `{text[:90]}` with condition {C}, then-partner {'present' if t_hit else 'absent'}, else-partner "
                                        f"{'present' if e_hit else 'absent'}: datapoint is {'kept' if got is True else 'dropped'}, VTL (null → else) "
                                        f"says {'kept' if want else 'dropped'}"))
    rep.analysed = {"registry_entries": len(reg), "semantic_tokens": len(sem), "macros": len(macros), "strictness_obligations": nstrict}
    # ---- R01.6: the structure the transpiler infers for an intermediate DS op DS result == the interpreter's (finite model) ----
    rep.rule("R01.6", "intermediate structure of a dataset-dataset operator: StructureVisitor agrees with semantic analysis on identifiers and measures (finite model, both evaluated from source)")
    from sa import structmodel as _sm
    _M = _sm.Model(P)
    _n = 0
    for _lab, _li, _ri, _lm, _rm in _sm.BINARY_SHAPES:
        _L, _R = _M.ds("DS_1", _li, _lm), _M.ds("DS_2", _ri, _rm)
        _a = _M.interpreter_binary("vtlengine.Operators.Numeric.BinPlus", _L, _R)
        _L2, _R2 = _M.ds("DS_1", _li, _lm), _M.ds("DS_2", _ri, _rm)
        _b = _M.visitor_binary(_L2, _R2)
        _n += 1
        rep.instance("R01.6", f"ds-ds/{_lab}", nontrivial=True, sample={"interpreter": _a[1].summary() if _a[0] == "ok" else _a, "structure_visitor": _b[1].summary() if _b[0] == "ok" else _b})
        if _a[0] != "ok":
            if sorted(_lm) == sorted(_rm):
                _fv = P.func("vtlengine.Operators.Binary.dataset_validation")
                rep.add(Finding("R01.6", f"R01.6/ds-ds-accept/{_lab}", _fv.module.rel, _fv.node.lineno, _fv.qualname,
                                f"DS_1(ids {_li}, measures {_lm}) op DS_2(ids {_ri}, measures {_rm}) is rejected by semantic analysis ({_a[1]}): measures are matched by NAME - "
                                f"operands that declare the same measures in another order are compatible"))
            continue  # rejected by semantic analysis: no intermediate structure is needed
        if _b[0] != "ok" or _a[1].summary() != _b[1].summary():
            _f = P.func(_sm.SV + "._build_ds_ds_binop_structure")
            rep.add(Finding("R01.6", f"R01.6/ds-ds/{_lab}", _f.module.rel, _f.node.lineno, _f.qualname,
                            f"for DS_1(ids {_li}, measures {_lm}) op DS_2(ids {_ri}, measures {_rm}) semantic analysis gives identifiers/measures {_a[1].summary()} but the "
                            f"transpiler's structure for the same intermediate result is {_b[1].summary() if _b[0] == 'ok' else _b}: an enclosing operator joins on / projects the wrong "
                            f"identifiers (nested expressions such as (DS_1 + DS_2) * DS_3 give spurious or missing datapoints)"))
    rep.floor("R01.6 shapes", _n, 6)
    # ---- R01.9 the SQL of an operator is a function of (operator, operands, operand TYPE): nothing in between remembers less ----
    rep.rule("R01.9", "no hand-rolled cache in the SQL generation whose key omits an argument of the cached computation (the typed Time_Period / Duration templates are selected by data_type)")
    from sa import globalsx as _gx9
    _gx9.report_handrolled_memos(P, rep, "R01.9", ("vtlengine.duckdb_transpiler",),
                                 "a comparison of Duration / Time_Period values rendered after the same text was rendered for Strings gets the plain text comparison (and the reverse)")
    # ---- R01.8 operands are matched by identifier TEXT: a Time_Period identifier has one stored text per period ----
    rep.rule("R01.8", "every accepted spelling of a Time_Period is stored as the one canonical text (datasets are joined and compared on that text)")
    from sa.checks.c21 import spelling_grid
    from sa.checks.c19 import period_limits
    spelling_grid(rep, "R01.8", macros, period_limits(P))
    # ---- R01.10: an engine-level domain error of a scalar operator comes back as the operator's VTL error (shared with C32 R32.2) ----
    rep.rule("R01.10", "every data-evaluating conn.execute reachable from execute_queries is inside an `except duckdb.Error` handler (all DuckDB error classes: logarithm domain "
                       "errors are OutOfRangeException, error() is InvalidInputException, failed casts ConversionException)")
    from sa.checks.c32 import execute_sites_wrapped as _wrapped
    _wrapped(P, rep, "R01.10")
    # ---- R01.11: the operand values the operators work on are the values that were given (shared with C18 R18.6) ----
    rep.rule("R01.11", "an Integer operand handed over in an exact integer column is loaded without passing through a binary float (64-bit integers beyond 2**53 keep their value)")
    from sa.checks.c18 import integer_carrier_exact as _ice
    _ice(P, rep, "R01.11")
    # ---- R01.12: isnull returns its measure (shared with C10 R10.13) ----
    rep.rule("R01.12", "isnull over a dataset with one measure: measure name declared by Unary.validate == alias delivered by visit_UnaryOp, per measure type")
    from sa.checks.c10 import isnull_measure_name_agrees as _imn
    _imn(P, rep, "R01.12")
    # ---- R01.13: a dataset-level sub-expression delivers its measure under the name its enclosing operator expects ----
    rep.rule("R01.13", "nested dataset-level operators (DS + DS under a comparison, DS > scalar under not): alias delivered by the sub-expression's SELECT == measure name of the structure "
                       "resolved for it (statement output named differently)")
    intermediate_measure_names(P, rep, "R01.13")
    rep.assumptions = ["DuckDB scalar functions and arithmetic/comparison operators return NULL on a NULL argument; COALESCE/IS NULL/AND/OR/CASE "
                       "follow SQL semantics; error() never returns", "VTL semantics encoded in the checker: null propagation for the listed "
                       "operator classes, Kleene tables for and/or, null-strict xor/not"]


def _ds_scalar_division(P: Program, rep: Report) -> None:
    from sa import structmodel as sm
    from sa.e6 import Interp, Raised, Unmodelled
    f = P.func(f"{TRPKG}.SQLTranspiler._build_ds_scalar_binary")
    M = sm.Model(P)
    n = 0
    for ds_on_left in (True, False):
        for scalar in ("2", "0", "2.5", "-1", "NULL", '"sc_1"'):
            captured: Dict[str, object] = {}

            def apply_measures(ds_node, expr_fn, *a, **k):
                captured["expr"] = expr_fn('"M"')
                return "⟦select⟧"
            ext = {"self._get_dataset_structure": lambda x: M.ds("DS_1", ["A"], ["M"]), "isinstance": lambda o, t: True, "self.visit": lambda x: scalar,
                   "self._make_binary_expr": lambda l, r, op, lt=None, rt=None: f"⟦registry {op}⟧({l}, {r})", "self._apply_measures": apply_measures,
                   "registry.sql": lambda op, *a: f"⟦registry {op}⟧({', '.join(map(str, a))})"}
            it = Interp(P, externals=ext)
            try:
                it.call(f, {"self": sm.MTranspiler(), "ds_node": "DS", "scalar_node": "SC", "op": "/", "ds_on_left": ds_on_left})
            except (Unmodelled, Raised) as e:
                raise AnalysisError(f"R01.7: _build_ds_scalar_binary outside the evaluator's language: {e}")
            expr = str(captured.get("expr"))
            n += 1
            want = f'⟦registry /⟧("M", {scalar})' if ds_on_left else f'⟦registry /⟧({scalar}, "M")'
            rep.instance("R01.7", f"div/{'DS/k' if ds_on_left else 'k/DS'}/{scalar}", sample={"expr": expr})
            if expr == want:
                continue
            m = re.fullmatch(r"\(?\s*(.+?)\s*/\s*(.+?)\s*\)?", expr)
            ok = False
            if m and "⟦registry" not in expr:
                dividend, divisor = m.group(1), m.group(2)
                right_order = (dividend, divisor) == (('"M"', scalar) if ds_on_left else (scalar, '"M"'))
                try:
                    ok = right_order and float(divisor) != 0.0
                except ValueError:
                    ok = False
            if not ok:
                rep.add(Finding("R01.7", f"R01.7/div/{'DS/k' if ds_on_left else 'k/DS'}/{scalar}", f.module.rel, f.node.lineno, f.qualname,
                                f"{'DS_1 / ' + scalar if ds_on_left else scalar + ' / DS_1'}: each measure is computed as `{expr}` instead of `{want}` (the registry's zero-checking division): "
                                f"a divisor that is a column (or 0) no longer raises RunTimeError 2-1-15-6 for a zero value - the datapoint comes back as inf / NULL"))
    rep.floor("R01.7 dataset-scalar divisions evaluated", n, 12)


def intermediate_measure_names(P: Program, rep: Report, rule: str) -> None:
    """A dataset-level operation that is the OPERAND of another one (so the statement's output structure is not its own): the name under which
    its SELECT delivers the single measure == the measure name of the structure the enclosing operator resolves for it.  Evaluated for
    DS + DS and DS > scalar on mono-measure operands inside a statement whose result measure is called differently (bool_var): both the SQL
    builder and the structure resolver are the repository's code, evaluated on abstract structures."""
    import re as _re
    from sa import structmodel as _sm
    from sa.e6 import ExternalObj as _EO, Interp as _I, Raised as _R, Unmodelled as _U
    M = _sm.Model(P)
    fdd = P.func(_sm.TRQ + "._build_ds_ds_binary")
    fds = P.func(_sm.TRQ + "._build_ds_scalar_binary")
    frs = P.func(_sm.SV + "._resolve_binop_structure")
    dataset_kind = _I(P).eval(ast.parse("_DATASET", mode="eval").body, {}, frs)
    n = 0
    for label, op, both in (("DS_1 + DS_2 inside a comparison", "+", True), ("DS_1 > 1 inside not(...)", ">", False)):
        left, right = M.ds("DS_1", ["Id_1"], ["Me_1"]), M.ds("DS_2", ["Id_1"], ["Me_1"])
        out = M.ds("DS_r", ["Id_1"], ["bool_var"])
        me = _sm.MTranspiler()
        me.input_datasets = {"DS_1": left, "DS_2": right}
        lnode, rnode = _sm.MNode("VarID", value="DS_1"), (_sm.MNode("VarID", value="DS_2") if both else _sm.MNode("Constant", value=1, type_="INTEGER_CONSTANT"))
        ext = {"self._get_dataset_structure": lambda nd: {"DS_1": left, "DS_2": right}.get(getattr(nd, "value", None)), "self._get_dataset_sql": lambda nd: f'"{nd.value}"',
               "self._get_output_dataset": lambda: out, "self._make_binary_expr": lambda a, b, o, *t: f"({a} {o} {b})", "quote_name": lambda x: f'"{x}"', "SQLBuilder": _sm.MBuilder,
               "isinstance": _sm._isinstance, "get_current_registry": lambda: _EO({"rule_for": lambda c: None}), "self.visit": lambda nd: str(getattr(nd, "value", "?")),
               "self._join_on_clause": lambda ids, a, b: " AND ".join(f'{a}."{i}" = {b}."{i}"' for i in ids) or "1=1"}
        try:
            if both:
                b = _I(P, externals=ext, max_steps=40000).call(fdd, {"self": me, "left_node": lnode, "right_node": rnode, "op": op})
            else:
                b = _I(P, externals=ext, max_steps=40000).call(fds, {"self": me, "ds_node": lnode, "scalar_node": rnode, "op": op, "ds_on_left": True})
        except (_R, _U) as e:
            raise AnalysisError(f"{rule}: the SQL builder is outside the evaluator's language ({label}): {e}")
        delivered = sorted(_re.findall(r'AS "([^"]+)"\s*$', c_)[0] for c_ in getattr(b, "cols", []) if _re.search(r'AS "([^"]+)"\s*$', c_))
        node = _sm.MNode("BinOp", left=lnode, op=op, right=rnode)
        ext_s = {"self._get_node_type": lambda nd: dataset_kind if getattr(nd, "_cls", "") == "VarID" else "Scalar", "self._get_dataset_structure": lambda nd: {"DS_1": left, "DS_2": right}.get(getattr(nd, "value", None)),
                 "self._build_ds_ds_binop_structure": lambda nd: M.visitor_binary(left, right)[1], "self._build_boolean_result_structure": lambda d: M.ds(d.name, d.get_identifiers_names(), ["bool_var"]),
                 "isinstance": _sm._isinstance}
        try:
            sv = _I(P, externals=ext_s, max_steps=40000).call(frs, {"self": _sm.MSelf(), "node": node})
            resolved = sorted(sv.get_measures_names())
        except (_R, _U) as e:
            raise AnalysisError(f"{rule}: _resolve_binop_structure outside the evaluator's language ({label}): {e}")
        n += 1
        rep.instance(rule, f"intermediate-name/{label}", nontrivial=True, sample={"expression": label, "select_delivers": delivered, "structure_resolved_for_the_enclosing_operator": resolved})
        if delivered != resolved:
            rep.add(Finding(rule, f"{rule}/intermediate-name/{'ds-ds' if both else 'ds-scalar'}/{op}", (fdd if both else fds).module.rel, (fdd if both else fds).node.lineno, (fdd if both else fds).qualname,
                            f"{label}: the sub-expression's SELECT delivers its measure as {delivered} (named after the measure of the WHOLE statement's result), the structure the enclosing "
                            f"operator resolves for it says {resolved}: the enclosing operator references a column that does not exist and the valid script ends in a raw DuckDB BinderException"))
    rep.floor(f"{rule} nested shapes", n, 2)
