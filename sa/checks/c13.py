"""C13 - dataset load/release schedule and result selection (DESIGN §3 C13).

The property quantifies over dependency graphs replayed against a table-store model; decided here are the code-shape
facts that argument rests on (each a necessary condition: breaking it breaks the schedule for some script).

R13.1 per-statement ordering in execute_queries: every path through one loop iteration passes
      load_scheduled_datasets(i) ≺ CREATE TABLE ≺ cleanup_scheduled_datasets(i), all with the loop's own index
R13.2 index agreement: enumerate(queries, start=1); DAGAnalyzer numbers statements from 1, +1 per recorded statement;
      the transpiler emits exactly one query per Assignment child, in child order, on every path
R13.3 single owner of CREATE/DROP TABLE: only the allowed functions emit them; fetch_result never deletes
R13.4 once-only load: every insertion[...] append is guarded by `not in global_set` and followed by global_set.add
R13.5 release after the last reader: every deletion[...] index is last_consumer.get(name, key); last_consumer has one
      unconditional writer inside a loop over self.dependencies.items(); dependency promotion loops have no early exit
R13.6 the two result-selection predicates are the same boolean function of (return_only_persistent, persistent)
R13.7 the schedule is computed from the AST that is executed: ds_structure runs a FRESH analyser over its own parameter on every
      path (statement numbers of an earlier analysis belong to the textual order, the executor counts in execution order); no
      analysis result is parked on the AST object between calls
R13.8 the result sink is not read-only (it rewrites Time_Period columns of the table in place before copying it out), so a table
      is handed to fetch_result only at its scheduled release or after the last statement - never while later statements may read it
"""
from __future__ import annotations

import ast
import re
from typing import Any, Dict, List, Optional, Set, Tuple

from sa.cfg import CFG, Node, describe_path
from sa.core import AnalysisError, Finding, FuncInfo, Program, Report, dotted, program, src, walk_no_nested
from sa.e6 import Interp

EXEC = "vtlengine.duckdb_transpiler.io._execution"
DAG = "vtlengine.AST.DAG.DAGAnalyzer"


def _callee_name(c: ast.Call) -> str:
    return c.func.id if isinstance(c.func, ast.Name) else (c.func.attr if isinstance(c.func, ast.Attribute) else "")


def sql_head(e: ast.AST) -> str:
    """Leading literal text of a (f-)string expression, upper-cased."""
    if isinstance(e, ast.Constant) and isinstance(e.value, str):
        return e.value.lstrip().upper()
    if isinstance(e, ast.JoinedStr) and e.values and isinstance(e.values[0], ast.Constant):
        return str(e.values[0].value).lstrip().upper()
    return ""


def run(rep: Report, tier: str) -> None:
    P = program()
    rep.explanation = ("CFG path queries over execute_queries (per-iteration ordering), def-use and guard-shape rules over "
                       "DAGAnalyzer._ds_usage_analysis/visit_Start and SQLTranspiler.visit_Start, a who-may-emit rule for CREATE/DROP "
                       "TABLE SQL strings over the whole package, and a 2×2 truth-table comparison of the selection predicates.")
    for rid, text in [("R13.1", "load ≺ CREATE TABLE ≺ cleanup on every path of one execute_queries iteration, same index"),
                      ("R13.2", "statement numbering agrees between DAG (from 1, +1 each), transpiler (one query per Assignment) and executor (start=1)"),
                      ("R13.3", "CREATE/DROP TABLE emitted only by the owning functions; fetch_result passes delete_after_save=False"),
                      ("R13.4", "insertion schedule: guarded once-only load"),
                      ("R13.5", "deletion schedule: index is last_consumer.get(name, key); single unconditional writer; no early exit in promotion"),
                      ("R13.6", "selection predicates in cleanup and in the final loop are the same function")]:
        rep.rule(rid, text)

    # ---- R13.1 ------------------------------------------------------------------------------------------
    f = P.func(f"{EXEC}.execute_queries")
    g = CFG(f.node)
    loops = [n for n in g.nodes if n.kind == "loop" and isinstance(n.stmt, ast.For) and isinstance(n.stmt.iter, ast.Call)
             and _callee_name(n.stmt.iter) == "enumerate"]
    if len(loops) != 1:
        raise AnalysisError(f"execute_queries: expected one enumerate(...) statement loop, found {len(loops)}")
    H = loops[0]
    loop = H.stmt
    en = loop.iter
    idx_var = loop.target.elts[0].id if isinstance(loop.target, ast.Tuple) and isinstance(loop.target.elts[0], ast.Name) else None
    if idx_var is None:
        raise AnalysisError("execute_queries: loop index variable not found")
    body_ids = {id(x) for st in loop.body for x in ast.walk(st)}
    def in_body(n: Node) -> bool:
        return n.stmt is not None and id(n.stmt) in body_ids
    def calls_named(n: Node, name: str) -> bool:
        return in_body(n) and any(_callee_name(c) == name for c in g.calls_at(n))
    def is_create(n: Node) -> bool:
        return in_body(n) and any(_callee_name(c) == "execute" and c.args and sql_head(c.args[0]).startswith("CREATE TABLE") for c in g.calls_at(n))
    L = [n for n in g.nodes if calls_named(n, "load_scheduled_datasets")]
    C = [n for n in g.nodes if is_create(n)]
    K = [n for n in g.nodes if calls_named(n, "cleanup_scheduled_datasets")]
    for name, lst in (("load_scheduled_datasets", L), ("CREATE TABLE execute", C), ("cleanup_scheduled_datasets", K)):
        if len(lst) != 1:
            raise AnalysisError(f"execute_queries loop: expected one {name} site, found {len(lst)}")
    L0, C0, K0 = L[0], C[0], K[0]
    body_entry = [t for t in g.norm_succ.get(H, set()) if in_body(t)]
    after_loop = [t for t in g.norm_succ.get(H, set()) if not in_body(t)]
    def q(start: List[Node], goal, avoid, what: str, key: str) -> None:
        rep.instance("R13.1", key, nontrivial=True, sample={"obligation": what})
        for s in start:
            if avoid(s):
                continue
            p = [s] if goal(s) else g.path_avoiding(s, goal, avoid, follow_exc=False)
            if p is not None:
                rep.add(Finding("R13.1", f"R13.1/{key}", f.module.rel, (p[-1].lineno or H.lineno), f.qualname, what + " — violated on a path",
                                describe_path(p)))
                return
    end_iter = lambda n: n is H or n in after_loop or n is g.exit
    q(body_entry, lambda n: n is C0, lambda n: n is L0, "the statement's inputs are loaded before its CREATE TABLE runs", "load-before-create")
    q(body_entry, lambda n: n is K0, lambda n: n is C0, "datasets are released only after the statement's CREATE TABLE ran", "create-before-cleanup")
    q(body_entry, end_iter, lambda n: n is L0, "every iteration loads the datasets scheduled for its statement number", "every-iteration-loads")
    q(body_entry, end_iter, lambda n: n is C0, "every iteration executes its statement", "every-iteration-executes")
    q(list(g.norm_succ.get(C0, set())), end_iter, lambda n: n is K0, "after a statement ran, the datasets scheduled for release at its number are released", "cleanup-after-create")
    for nm, node in (("load_scheduled_datasets", L0), ("cleanup_scheduled_datasets", K0)):
        call = [c for c in g.calls_at(node) if _callee_name(c) == nm][0]
        kw = {k.arg: k.value for k in call.keywords}
        callee = P.func(f"{EXEC}.{nm}")
        arg = kw.get("statement_num")
        if arg is None and len(call.args) > 1:
            arg = call.args[callee.params.index("statement_num")] if "statement_num" in callee.params and callee.params.index("statement_num") < len(call.args) else None
        rep.instance("R13.1", f"index/{nm}", nontrivial=True, sample={"call": nm, "statement_num": src(arg) if arg is not None else None})
        if not (isinstance(arg, ast.Name) and arg.id == idx_var):
            rep.add(Finding("R13.1", f"R13.1/index/{nm}", f.module.rel, call.lineno, f.qualname,
                            f"{nm} is called with statement_num={src(arg) if arg is not None else '?'}, not the loop index `{idx_var}`"))
    # the callee looks its schedule up under exactly that number
    for nm, table in (("load_scheduled_datasets", "insertion"), ("cleanup_scheduled_datasets", "deletion")):
        callee = P.func(f"{EXEC}.{nm}")
        subs = [s for s in walk_no_nested(callee.node) if isinstance(s, ast.Subscript) and isinstance(s.value, ast.Attribute) and s.value.attr == table]
        rep.instance("R13.1", f"lookup/{nm}", nontrivial=True, sample={"lookups": [src(s) for s in subs]})
        if not subs or any(src(s.slice) != "statement_num" for s in subs):
            rep.add(Finding("R13.1", f"R13.1/lookup/{nm}", callee.module.rel, callee.node.lineno, callee.qualname,
                            f"{nm} must read ds_analysis.{table}[statement_num]; found {[src(s) for s in subs]}"))

    # ---- R13.2 ------------------------------------------------------------------------------------------
    start_kw = {k.arg: k.value for k in en.keywords}.get("start", en.args[1] if len(en.args) > 1 else None)
    rep.instance("R13.2", "enumerate-start", nontrivial=True, sample={"enumerate": src(en)})
    if not (isinstance(start_kw, ast.Constant) and start_kw.value == 1):
        rep.add(Finding("R13.2", "R13.2/enumerate-start", f.module.rel, en.lineno, f.qualname,
                        f"statement loop is {src(en)}: the schedules are keyed from 1"))
    if not (en.args and isinstance(en.args[0], ast.Name) and en.args[0].id == "queries"):
        rep.add(Finding("R13.2", "R13.2/enumerate-source", f.module.rel, en.lineno, f.qualname, f"statement loop iterates {src(en.args[0]) if en.args else '?'}, not `queries`"))
    dag = P.cls(DAG)
    nos = dag.attrs.get("number_of_statements")
    rep.instance("R13.2", "dag-first-number", nontrivial=True, sample={"number_of_statements": src(nos) if nos is not None else None})
    if not (isinstance(nos, ast.Constant) and nos.value == 1):
        rep.add(Finding("R13.2", "R13.2/dag-first-number", dag.module.rel, dag.node.lineno, DAG,
                        f"DAGAnalyzer.number_of_statements starts at {src(nos) if nos is not None else '?'}; the executor counts from 1"))
    vs = P.func(f"{DAG}.visit_Start")
    # record + increment pairing
    recs = [n for n in walk_no_nested(vs.node) if isinstance(n, ast.Assign) and isinstance(n.targets[0], ast.Subscript)
            and src(n.targets[0].value) == "self.dependencies"]
    incs = [n for n in walk_no_nested(vs.node) if isinstance(n, ast.AugAssign) and src(n.target) == "self.number_of_statements"]
    rep.instance("R13.2", "dag-record-increment", nontrivial=True, sample={"records": [src(r)[:80] for r in recs], "increments": [src(i) for i in incs]})
    ok = (len(recs) == 1 and len(incs) == 1 and src(recs[0].targets[0].slice) == "self.number_of_statements"
          and isinstance(incs[0].op, ast.Add) and isinstance(incs[0].value, ast.Constant) and incs[0].value.value == 1
          and getattr(recs[0], "_parent", None) is getattr(incs[0], "_parent", None))
    if ok:
        par = getattr(recs[0], "_parent")
        body = par.body if recs[0] in par.body else par.orelse
        ok = body.index(recs[0]) < body.index(incs[0]) and not any(isinstance(x, (ast.If, ast.For, ast.While, ast.Try, ast.Continue, ast.Break))
                                                                   for x in body[body.index(recs[0]):body.index(incs[0])])
    if not ok:
        rep.add(Finding("R13.2", "R13.2/dag-record-increment", vs.module.rel, vs.node.lineno, vs.qualname,
                        "each recorded statement must be stored under number_of_statements and followed unconditionally by += 1"))
    # which children are numbered: isinstance(child, (Assignment, PersistentAssignment)) guard
    def assignment_guard(fn: FuncInfo, must_contain: str) -> Tuple[Optional[ast.If], Optional[ast.For]]:
        for lp in [n for n in walk_no_nested(fn.node) if isinstance(n, ast.For) and src(n.iter).endswith("node.children")]:
            for st in ast.walk(lp):
                if isinstance(st, ast.If) and must_contain in src(st):
                    t = st.test
                    if isinstance(t, ast.Call) and _callee_name(t) == "isinstance" and "Assignment" in src(t.args[1]):
                        return st, lp
        return None, None
    ifd, lpd = assignment_guard(vs, "self.dependencies")
    tv = P.func("vtlengine.duckdb_transpiler.Transpiler.SQLTranspiler.visit_Start")
    ret_names = {r.value.id for r in walk_no_nested(tv.node) if isinstance(r, ast.Return) and isinstance(r.value, ast.Name)}
    def _same_list(v: ast.AST) -> Optional[str]:
        # `queries`, `list(queries)`, `tuple(queries)`, `queries[:]`, `queries.copy()` all hand back the appended list in its own order
        if isinstance(v, ast.Name):
            return v.id
        if isinstance(v, ast.Call) and isinstance(v.func, ast.Name) and v.func.id in ("list", "tuple") and len(v.args) == 1 and isinstance(v.args[0], ast.Name) and not v.keywords:
            return v.args[0].id
        if isinstance(v, ast.Call) and isinstance(v.func, ast.Attribute) and v.func.attr == "copy" and isinstance(v.func.value, ast.Name) and not v.args:
            return v.func.value.id
        if isinstance(v, ast.Subscript) and isinstance(v.value, ast.Name) and isinstance(v.slice, ast.Slice) and v.slice.lower is None and v.slice.upper is None and v.slice.step is None:
            return v.value.id
        return None
    ret_names = {_same_list(r.value) for r in walk_no_nested(tv.node) if isinstance(r, ast.Return) and r.value is not None and _same_list(r.value)}
    other_returns = [r for r in walk_no_nested(tv.node) if isinstance(r, ast.Return) and r.value is not None and _same_list(r.value) is None]
    rep.instance("R13.2", "queries-in-statement-order", nontrivial=True, sample={"returns": [src(r)[:60] for r in walk_no_nested(tv.node) if isinstance(r, ast.Return)]})
    if other_returns:
        # the execution numbers the queries 1..n and looks the numbers up in the schedule built from the statement order: anything but the one list
        # appended to once per statement (a concatenation, a sort, a filter) detaches query k from statement k
        rep.add(Finding("R13.2", "R13.2/queries-in-statement-order", tv.module.rel, other_returns[0].lineno, tv.qualname,
                        f"SQLTranspiler.visit_Start returns `{src(other_returns[0].value)[:70]}`, not the list it appends one query to per statement in statement order: execute_queries numbers "
                        f"the queries 1..n and uses the number as the statement's position in the load / release schedule, so a re-ordered list runs a statement after its inputs were released"))
        names_in = {x.id for x in ast.walk(other_returns[0].value) if isinstance(x, ast.Name)}
        ret_names = ret_names or {n_ for n_ in names_in if any(isinstance(c, ast.Call) and _callee_name(c) == "append" and src(c.func.value) == n_ for c in ast.walk(tv.node))}
        ret_names = set(sorted(ret_names)[-1:]) if ret_names else ret_names
    if len(ret_names) != 1:
        raise AnalysisError("SQLTranspiler.visit_Start: the returned query list is not a single local")
    ift, lpt = assignment_guard(tv, f"{next(iter(ret_names))}.append")
    rep.instance("R13.2", "numbered-children-filter", nontrivial=True,
                 sample={"dag": src(ifd.test) if ifd else None, "transpiler": src(ift.test) if ift else None})
    if ifd is None or ift is None:
        raise AnalysisError("visit_Start (DAG or transpiler): `for child in node.children` / isinstance(child, …Assignment…) shape not found")
    def classes_of(test: ast.Call) -> Set[str]:
        a = test.args[1]
        names = [a] if not isinstance(a, ast.Tuple) else list(a.elts)
        out = set()
        for n_ in names:
            out.add(src(n_).split(".")[-1])
        # PersistentAssignment is a subclass of Assignment
        if "Assignment" in out:
            out.add("PersistentAssignment")
        return out
    if classes_of(ifd.test) != classes_of(ift.test):
        rep.add(Finding("R13.2", "R13.2/numbered-children-filter", tv.module.rel, ift.lineno, tv.qualname,
                        f"DAG numbers children of classes {sorted(classes_of(ifd.test))}, the transpiler emits queries for {sorted(classes_of(ift.test))}"))
    # exactly one queries.append on every path through the Assignment branch
    gt = CFG(tv.node)
    branch_ids = {id(x) for st in ift.body for x in ast.walk(st)}
    appends = [n for n in gt.nodes if n.stmt is not None and id(n.stmt) in branch_ids and n.kind == "stmt"
               and any(_callee_name(c) == "append" and src(c.func.value) == next(iter(ret_names)) for c in gt.calls_at(n))]
    test_node = [n for n in gt.nodes if n.kind == "test" and n.stmt is ift]
    rep.instance("R13.2", "one-query-per-assignment", nontrivial=True, sample={"append_sites": [a.lineno for a in appends]})
    if not test_node or not appends:
        raise AnalysisError("transpiler visit_Start: queries.append sites not found")
    entry = [t for t in gt.norm_succ[test_node[0]] if t.stmt is not None and id(t.stmt) in branch_ids]
    outside = lambda n: n.stmt is None or id(n.stmt) not in branch_ids
    for s in entry:
        p = gt.path_avoiding(s, outside, lambda n: n in appends, follow_exc=False) if s not in appends else None
        if p is not None:
            rep.add(Finding("R13.2", "R13.2/one-query-per-assignment/skip", tv.module.rel, ift.lineno, tv.qualname,
                            "a path through the Assignment branch appends no query: later statements shift to the wrong number", describe_path(p)))
    for a in appends:
        for s in gt.norm_succ.get(a, set()):
            p = [s] if s in appends else gt.path_avoiding(s, lambda n: n in appends, outside, follow_exc=False)
            if p is not None and all(id(x.stmt) in branch_ids for x in p if x.stmt is not None):
                rep.add(Finding("R13.2", "R13.2/one-query-per-assignment/twice", tv.module.rel, a.lineno, tv.qualname,
                                "a path appends two queries for one Assignment", describe_path(p)))

    # ---- R13.3 ------------------------------------------------------------------------------------------
    OWNERS = {
        "CREATE TABLE": {f"{EXEC}.execute_queries", "vtlengine.duckdb_transpiler.io._validation.build_create_table_sql"},
        "DROP TABLE": {f"{EXEC}.cleanup_scheduled_datasets", "vtlengine.duckdb_transpiler.io._io.load_datapoints_duckdb",
                       "vtlengine.duckdb_transpiler.io._io._load_parquet", "vtlengine.duckdb_transpiler.io._io.register_dataframes",
                       "vtlengine.duckdb_transpiler.io._io.save_datapoints_duckdb", "vtlengine.duckdb_transpiler.io._io._validate_loaded_table"},
    }
    nsql = 0
    for m in P.modules.values():
        for n in ast.walk(m.tree):
            if isinstance(n, (ast.Constant, ast.JoinedStr)) and not isinstance(getattr(n, "_parent", None), ast.JoinedStr):
                head = sql_head(n)
                for kw_ in ("CREATE TABLE", "CREATE OR REPLACE TABLE", "CREATE TEMP TABLE", "DROP TABLE"):
                    if head.startswith(kw_):
                        fn, _ = P.enclosing(m, n)
                        if isinstance(getattr(n, "_parent", None), ast.Expr):
                            continue  # docstring
                        nsql += 1
                        kind = "DROP TABLE" if kw_.startswith("DROP") else "CREATE TABLE"
                        qn = fn.qualname if fn else m.name
                        rep.instance("R13.3", f"{kind}/{qn}", nontrivial=True, sample={"site": f"{m.rel}:{n.lineno}", "sql": head[:50]})
                        if qn not in OWNERS[kind]:
                            rep.add(Finding("R13.3", f"R13.3/{kind}/{qn}", m.rel, n.lineno, qn,
                                            f"{head[:40]!r} emitted outside the owners of table lifetime {sorted(x.split('.')[-1] for x in OWNERS[kind])}"))
    rep.floor("CREATE/DROP TABLE SQL sites", nsql, 4)
    fr = P.func(f"{EXEC}.fetch_result")
    saves = [c for c in walk_no_nested(fr.node) if isinstance(c, ast.Call) and _callee_name(c) == "save_datapoints_duckdb"]
    if not saves:
        raise AnalysisError("fetch_result: save_datapoints_duckdb call not found")
    for c in saves:
        kw = {k.arg: k.value for k in c.keywords}
        v = kw.get("delete_after_save")
        rep.instance("R13.3", "fetch_result/delete_after_save", nontrivial=True, sample={"call": src(c)[:120]})
        if not (isinstance(v, ast.Constant) and v.value is False):
            rep.add(Finding("R13.3", "R13.3/fetch_result/delete_after_save", fr.module.rel, c.lineno, fr.qualname,
                            "fetch_result must pass delete_after_save=False: the table is released by cleanup_scheduled_datasets (exactly one release)"))

    # ---- R13.4 / R13.5 ------------------------------------------------------------------------------------
    ua = P.func(f"{DAG}._ds_usage_analysis")
    _schedule_model(P, rep, ua)
    # promotion loops in visit_Start: no early exit
    for lp in [n for n in walk_no_nested(vs.node) if isinstance(n, ast.For)]:
        if any(isinstance(x, ast.Call) and _callee_name(x) == "append" and src(x.func.value).endswith(".inputs") for x in ast.walk(lp)):
            exits_ = [x for x in ast.walk(lp) if isinstance(x, (ast.Break, ast.Return))]
            rep.instance("R13.5", f"promotion-loop@{src(lp.target)}", nontrivial=True)
            if exits_:
                rep.add(Finding("R13.5", "R13.5/promotion-early-exit", vs.module.rel, exits_[0].lineno, vs.qualname,
                                "the loop that turns clause-level unknown variables into statement inputs leaves early: only the first "
                                "reader gets the dependency, so the value is released before its last reader"))

    # ---- R13.6 ------------------------------------------------------------------------------------------
    cl = P.func(f"{EXEC}.cleanup_scheduled_datasets")
    from sa.e6 import ExternalObj as _EO, Raised as _Rs, Unmodelled as _Un
    # the loop of execute_queries that collects what is still unfetched at the end: `for name, _, persistent in <queries parameter>`
    fin_loops = [n for n in walk_no_nested(f.node) if isinstance(n, ast.For) and isinstance(n.iter, ast.Name) and n.iter.id in f.params
                 and any(isinstance(c, ast.Call) and _callee_name(c) == "fetch_result" for c in ast.walk(n))]
    if len(fin_loops) != 1:
        raise AnalysisError("execute_queries: the final collection loop over the queries parameter (calling fetch_result) was not found")

    class _Conn:
        def __init__(self) -> None:
            self.sql: List[str] = []

        def execute(self, q: str, *a: Any) -> "_Conn":
            self.sql.append(q)
            return self
    table = []
    for rop in (True, False):
        for pers in (True, False):
            want = (not rop) or pers
            # (a) the scheduled release
            res_a: Dict[str, Any] = {}
            sched = _EO({"deletion": {1: ["X"]}, "global_inputs": [], "persistent": ["X"] if pers else [], "insertion": {}, "all_outputs": ["X"]})
            try:
                Interp(P, externals={"fetch_result": lambda **kw: "FETCHED"}).call(cl, {
                    "conn": _Conn(), "statement_num": 1, "ds_analysis": sched, "output_folder": None, "output_datasets": {}, "output_scalars": {},
                    "results": res_a, "return_only_persistent": rop})
            except (_Un, _Rs) as e:
                raise AnalysisError(f"R13.6: cleanup_scheduled_datasets outside the evaluator's language: {e}")
            a = "X" in res_a
            # (b) the final collection loop
            res_b: Dict[str, Any] = {}
            env = {p_: None for p_ in f.params}
            env.update({fin_loops[0].iter.id: [("X", "SELECT 1", pers)], "return_only_persistent": rop, "output_datasets": {}, "output_scalars": {}})
            # the loop reads the results dict under whatever local name it has: every dict-valued local assigned `{}` before the loop
            for n in walk_no_nested(f.node):
                if isinstance(n, (ast.Assign, ast.AnnAssign)) and n.value is not None and isinstance(n.value, ast.Dict) and not n.value.keys and n.lineno < fin_loops[0].lineno:
                    for t in (n.targets if isinstance(n, ast.Assign) else [n.target]):
                        if isinstance(t, ast.Name):
                            env[t.id] = res_b
            for n in walk_no_nested(f.node):  # other locals the loop body mentions (representation ...): opaque
                if isinstance(n, ast.Name) and isinstance(n.ctx, ast.Store) and n.id not in env:
                    env[n.id] = None
            try:
                Interp(P, externals={"fetch_result": lambda **kw: "FETCHED"}).exec(fin_loops[0], env, f)
            except (_Un, _Rs) as e:
                raise AnalysisError(f"R13.6: final collection loop of execute_queries outside the evaluator's language: {e}")
            b = "X" in res_b
            table.append((rop, pers, a, b))
            rep.instance("R13.6", f"rop={rop}/persistent={pers}", nontrivial=True, sample={"return_only_persistent": rop, "persistent": pers, "cleanup": a, "final": b})
            if a != want or b != want:
                rep.add(Finding("R13.6", f"R13.6/rop={rop}/persistent={pers}", f.module.rel, f.node.lineno, f.qualname,
                                f"result selection for return_only_persistent={rop}, persistent={pers}: the scheduled release {'returns' if a else 'does not return'} the result, "
                                f"the final collection {'returns' if b else 'does not return'} it; specified: {'returned' if want else 'not returned'}"))
    # persistent list is built from statement.persistent
    # DatasetSchedule.persistent == the names assigned with `<-` (evaluated on a model)
    class _D:
        def __init__(self, inputs=(), outputs=(), persistent=()):
            self.inputs, self.outputs, self.persistent, self.unknown_variables = list(inputs), list(outputs), list(persistent), []

    class _Me:
        _e6_class = DAG
    me = _Me()
    me.dependencies = {1: _D(["DS_1"], ["A"]), 2: _D(["A"], [], ["P"]), 3: _D(["A"], [], ["Q"]), 4: _D(["DS_1"], ["B"])}
    try:
        sch = Interp(P, externals={"DatasetSchedule": lambda **kw: kw}).call(ua, {"self": me})
    except (_Un, _Rs) as e:
        raise AnalysisError(f"R13.6: _ds_usage_analysis outside the evaluator's language: {e}")
    rep.instance("R13.6", "persistent-source", nontrivial=True, sample={"persistent": list(sch.get("persistent", []))})
    if sorted(sch.get("persistent", [])) != ["P", "Q"]:
        rep.add(Finding("R13.6", "R13.6/persistent-source", ua.module.rel, ua.node.lineno, ua.qualname,
                        f"DatasetSchedule.persistent for a script with `P <- ...; Q <- ...` and two `:=` assignments is {sch.get('persistent')}: it must be exactly the persistent results"))
    # ---- R13.4 (cont.): every scheduled input is loaded from the source the caller gave for IT: file, DataFrame, or an empty table ----
    ls = P.func(f"{EXEC}.load_scheduled_datasets")
    loaded: List[Tuple[str, str, Any]] = []
    schedule = _EO({"insertion": {1: ["A", "B", "C", "ZZ"]}, "deletion": {}, "global_inputs": ["A", "B", "C"], "persistent": [], "all_outputs": []})
    structs = {k: _EO({"components": {"Id_1": k}, "name": k}) for k in ("A", "B", "C")}
    try:
        Interp(P, externals={
            "load_datapoints_duckdb": lambda **kw: loaded.append((kw.get("dataset_name"), "file" if kw.get("file_path") is not None else "empty", kw.get("file_path"))),
            "register_dataframes": lambda conn, dfs, ins: loaded.extend((k, "dataframe", v) for k, v in dfs.items())}).call(ls, {
                "conn": object(), "statement_num": 1, "ds_analysis": schedule, "path_dict": {"A": "/data/A.csv"}, "dataframe_dict": {"B": "<DataFrame B>"}, "input_datasets": structs})
    except (_Un, _Rs) as e:
        raise AnalysisError(f"R13.4: load_scheduled_datasets outside the evaluator's language: {e}")
    rep.instance("R13.4", "load-sources/mixed-inputs", nontrivial=True, sample={"loaded": [(a, b) for a, b, _c in loaded]})
    want_src = [("A", "file", "/data/A.csv"), ("B", "dataframe", "<DataFrame B>"), ("C", "empty", None)]
    if sorted(loaded, key=lambda x: x[0]) != want_src:
        rep.add(Finding("R13.4", "R13.4/load-sources/mixed-inputs", ls.module.rel, ls.node.lineno, ls.qualname,
                        f"one run() given a CSV path for A, a DataFrame for B and nothing for C (all scheduled at statement 1): loaded as {[(a, b) for a, b, _c in sorted(loaded)]}; "
                        f"each input must be loaded exactly once from its own source - A from its file, B from its DataFrame, C as an empty table - names that are not inputs are skipped"))

    # ---- R13.7 ------------------------------------------------------------------------------------------
    rep.rule("R13.7", "ds_structure analyses the AST it is given with a fresh analyser on every path; nothing cached on the AST")
    # run(): the schedule that is executed is computed by ds_structure from the very AST that is transpiled (statement numbers = execution order)
    frun = P.func("vtlengine.API.run")

    def _def1(name: str) -> Optional[ast.AST]:
        ds_ = [n.value for n in walk_no_nested(frun.node) if isinstance(n, (ast.Assign, ast.AnnAssign)) and n.value is not None
               and any(isinstance(t, ast.Name) and t.id == name for t in (n.targets if isinstance(n, ast.Assign) else [n.target]))]
        return ds_[0] if len(ds_) == 1 else None

    def _res(e: Optional[ast.AST], depth: int = 0) -> Optional[ast.AST]:
        while isinstance(e, ast.Name) and depth < 4:
            d_ = _def1(e.id)
            if d_ is None:
                break
            e, depth = d_, depth + 1
        return e
    eqc = [c for c in walk_no_nested(frun.node) if isinstance(c, ast.Call) and _callee_name(c) == "execute_queries"]
    trc = [c for c in walk_no_nested(frun.node) if isinstance(c, ast.Call) and isinstance(c.func, ast.Attribute) and c.func.attr == "transpile" and c.args]
    if len(eqc) != 1 or len(trc) != 1:
        raise AnalysisError("run(): execute_queries(...) / <transpiler>.transpile(ast) not found exactly once")
    sched = _res(next((k.value for k in eqc[0].keywords if k.arg == "ds_analysis"), None))
    rep.instance("R13.7", "run/schedule-from-executed-ast", nontrivial=True, sample={"schedule": src(sched) if sched is not None else None, "transpiled": src(trc[0].args[0])})
    ok_s = isinstance(sched, ast.Call) and isinstance(sched.func, ast.Attribute) and sched.func.attr == "ds_structure" and len(sched.args) == 1 \
        and src(sched.args[0]) == src(trc[0].args[0])
    if not ok_s:
        rep.add(Finding("R13.7", "R13.7/run/schedule-from-executed-ast", frun.module.rel, eqc[0].lineno, frun.qualname,
                        f"run() executes the statements of `{src(trc[0].args[0])}` (what it transpiles) but takes the load / release schedule from `{src(sched) if sched is not None else '?'}`: "
                        f"the schedule must be DAGAnalyzer.ds_structure(<that same AST>) - an analyser that numbered the statements before they were re-ordered "
                        f"schedules loads and releases at the wrong statements"))
    dsf = P.func("vtlengine.AST.DAG.DAGAnalyzer.ds_structure")
    gd = CFG(dsf.node)
    uses = [c for c in walk_no_nested(dsf.node) if isinstance(c, ast.Call) and isinstance(c.func, ast.Attribute) and c.func.attr == "_ds_usage_analysis"]
    rep.instance("R13.7", "fresh-analysis", nontrivial=True)
    if len(uses) != 1 or not isinstance(uses[0].func.value, ast.Name):
        raise AnalysisError("ds_structure: `<analyser>._ds_usage_analysis()` not found")
    var = uses[0].func.value.id
    param = [p_ for p_ in dsf.params if p_ not in ("cls", "self")][0]
    defs = [n for n in walk_no_nested(dsf.node) if isinstance(n, ast.Assign) and any(isinstance(t, ast.Name) and t.id == var for t in n.targets)]
    fresh = [d for d in defs if isinstance(d.value, ast.Call) and src(d.value.func) in ("cls", "DAGAnalyzer") and not d.value.args]
    if len(fresh) != len(defs) or not defs:
        bad = next((d for d in defs if d not in fresh), None)
        rep.add(Finding("R13.7", "R13.7/fresh-analysis", dsf.module.rel, (bad or dsf.node).lineno, dsf.qualname,
                        f"the analyser whose schedule ds_structure returns can come from `{src(bad.value) if bad is not None else '?'}` instead of a fresh analysis of the AST "
                        f"it is given: dependencies recorded by an earlier pass are numbered in textual order, but create_dag re-orders the statements and the executor "
                        f"counts in execution order, so tables are loaded / released at the wrong statements"))
    else:
        use_nodes = [x for x in gd.nodes if x.stmt is not None and any(y is uses[0] for y in ast.walk(x.stmt)) and x.kind == "stmt"]
        vis = {x for x in gd.nodes if x.stmt is not None and x.kind == "stmt" and any(
            isinstance(c, ast.Call) and isinstance(c.func, ast.Attribute) and c.func.attr == "visit" and src(c.func.value) == var and c.args and src(c.args[0]) == param
            for c in ast.walk(x.stmt))}
        pth = gd.path_avoiding(gd.entry, lambda x: x in use_nodes, lambda x: x in vis, follow_exc=False) if use_nodes else None
        if not vis or pth is not None:
            rep.add(Finding("R13.7", "R13.7/fresh-analysis", dsf.module.rel, dsf.node.lineno, dsf.qualname,
                            f"there is a path through ds_structure on which `{var}.visit({param})` is not executed before the schedule is derived"))
    ndag = 0
    for f_ in P.iter_functions():
        if not f_.module.name.startswith("vtlengine.AST.DAG"):
            continue
        params_ = set(f_.params) - {"self", "cls"}
        for n in walk_no_nested(f_.node):
            tgt = None
            if isinstance(n, ast.Assign):
                tgt = [t for t in n.targets if isinstance(t, ast.Attribute) and isinstance(t.value, ast.Name) and t.value.id in params_ and t.attr.startswith("_")
                       and not isinstance(n.value, ast.Constant)]  # constant marker flags (e.g. `_hr_sorted = True`) carry no analysis result
            elif isinstance(n, ast.Call) and isinstance(n.func, ast.Name) and n.func.id == "setattr" and n.args and isinstance(n.args[0], ast.Name) and n.args[0].id in params_:
                tgt = [n]
            ndag += 1 if isinstance(n, ast.Assign) else 0
            if tgt:
                rep.add(Finding("R13.7", f"R13.7/parked-on-ast/{f_.name}", f_.module.rel, n.lineno, f_.qualname,
                                f"`{src(n)[:70]}` parks an analysis result on an object passed in by the caller: it outlives the call and is stale as soon as the AST is re-ordered or edited"))
    rep.instance("R13.7", "nothing-parked-on-ast", nontrivial=True, sample={"assignments_scanned": ndag})

    # ---- R13.8 ------------------------------------------------------------------------------------------
    rep.rule("R13.8", "fetch_result only at the scheduled release or after the last statement")
    stmt_loop = next((n for n in walk_no_nested(f.node) if isinstance(n, ast.For) and "enumerate(queries" in src(n.iter)), None)
    if stmt_loop is None:
        raise AnalysisError("execute_queries: statement loop not found")
    nfr = 0
    for f_ in P.iter_functions():
        if not f_.module.name.startswith("vtlengine.duckdb_transpiler"):
            continue
        for c in walk_no_nested(f_.node):
            if isinstance(c, ast.Call) and (src(c.func) == "fetch_result" or src(c.func).endswith(".fetch_result")):
                nfr += 1
                key = f"{f_.name}:{'in-loop' if f_ is f and any(x is c for x in ast.walk(stmt_loop)) else 'ok'}"
                rep.instance("R13.8", f"site/{f_.name}", nontrivial=True)
                if f_ is f and any(x is c for x in ast.walk(stmt_loop)):
                    rep.add(Finding("R13.8", "R13.8/site/execute_queries/in-statement-loop", f_.module.rel, c.lineno, f_.qualname,
                                    "fetch_result is called inside the statement loop, i.e. for a table that later statements may still read; fetch_result rewrites the table's "
                                    "Time_Period columns to the output representation in place (apply_time_period_representation), so later readers see re-formatted values"))
                elif f_.name == "cleanup_scheduled_datasets":
                    inloop = any(isinstance(l, ast.For) and "deletion[" in src(l.iter) and any(x is c for x in ast.walk(l)) for l in walk_no_nested(f_.node))
                    if not inloop:
                        rep.add(Finding("R13.8", "R13.8/site/cleanup_scheduled_datasets/outside-deletion-schedule", f_.module.rel, c.lineno, f_.qualname,
                                        "cleanup_scheduled_datasets calls fetch_result outside the loop over the statement's deletion schedule"))
                elif f_ is not f:
                    rep.add(Finding("R13.8", f"R13.8/site/{f_.name}", f_.module.rel, c.lineno, f_.qualname,
                                    f"{f_.name} calls fetch_result: only the scheduled release (cleanup_scheduled_datasets) and the final collection in execute_queries may"))
    rep.floor("R13.8 fetch_result call sites", nfr, 2)
    # premise: fetch_result really is not read-only
    fr = P.func(f"{f.module.name}.fetch_result")
    rep.instance("R13.8", "premise/fetch-rewrites-table", nontrivial=False, sample="apply_time_period_representation" in src(fr.node))
    rep.analysed = {"execute_queries_nodes": len(g.nodes), "sql_table_lifetime_sites": nsql, "selection_truth_table": table}
    rep.rule("R13.9", "a scalar (or dataset) read inside a clause is a scheduled input of every statement that reads it (shared rule: C12 R12.9)")
    from sa.checks.c12 import unknown_resolution
    unknown_resolution(P, rep, "R13.9")
    # ---- R13.8: every handler of the dependency analysis descends into its node's operand fields on every path (shared with C12) ----
    rep.rule("R13.8", "every handler of the dependency analysis that descends into an operand-bearing field of its node does so on every path: a parameter or operand that is "
                      "skipped is not an input of the statement, the statements are not ordered after its producer and its table is released before the reader runs")
    from sa.checks.c12 import traversal_on_every_path as _traversal
    _traversal(P, rep, "R13.8")
    from sa.checks.c12 import handler_field_matrix as _matrix
    _matrix(P, rep, "R13.8")
    # ---- R13.9: a failed run leaves no session behind (shared with C16 R16.1) ----
    rep.rule("R13.9", "configured_connection releases the session directory and the connection on every exit (normal, exception, generator close): the tables of the statements "
                      "that ran before a failure do not outlive the run")
    from sa.checks.c16 import session_resources as _session_resources
    _session_resources(P, rep, "R13.9")
    # ---- R13.10: the table of a DataFrame input exists before any statement is run (shared with C19 / C05 R05.11) ----
    rep.rule("R13.10", "register_dataframes creates the table of every dataset given as a DataFrame on every path of its loop (only `name not in input_datasets` skips): the "
                       "load step of the schedule finds the table of an empty DataFrame too, so its first reader does not run before the table exists")
    from sa.checks.c19 import every_dataframe_becomes_a_table as _edt
    _edt(P, rep, "R13.10")
    rep.assumptions = ["normal-flow paths only for ordering (an exception aborts the run; its cleanup is C16)",
                       "the DAG's dependencies dict is filled in increasing statement number (single writer checked under R13.2)"]



def _schedule_model(P: Program, rep: Report, ua: Any) -> None:
    """R13.4 / R13.5 by evaluation: DAGAnalyzer._ds_usage_analysis is run by the finite evaluator on abstract dependency tables and the
    schedule it returns is compared with the specification: a global input (a name no statement produces) is loaded exactly once, at
    its FIRST reader; every dataset (input or result) is released exactly once, at its LAST reader - a result nobody reads at the
    statement that produces it; names the script produces are never loaded."""
    from sa.e6 import Raised, Unmodelled

    class Deps:
        def __init__(self, inputs=(), outputs=(), persistent=()):
            self.inputs, self.outputs, self.persistent, self.unknown_variables = list(inputs), list(outputs), list(persistent), []

    class Me:
        _e6_class = DAG
    scenarios = {
        "shared-input/chain": {1: Deps(["DS_1"], ["A"]), 2: Deps(["A", "DS_2"], ["B"]), 3: Deps(["DS_1", "A"], [], ["C"])},
        "input-read-late/unread-result": {1: Deps(["DS_1"], ["A"]), 2: Deps(["DS_2"], ["B"]), 3: Deps(["DS_2", "DS_1"], ["C"]), 4: Deps(["DS_3"], [], ["D"])},
        "same-input-twice-in-one-statement": {1: Deps(["DS_1", "DS_1"], ["A"]), 2: Deps(["A", "A"], [], ["B"])},
        "result-read-by-two-later-statements": {1: Deps(["DS_1"], ["A"]), 2: Deps(["A"], ["B"]), 3: Deps(["B"], ["C"]), 4: Deps(["A", "C"], [], ["D"])},
    }
    for label, deps in scenarios.items():
        me = Me()
        me.dependencies = deps
        try:
            res = Interp(P, externals={"DatasetSchedule": lambda **kw: kw}).call(ua, {"self": me})
        except (Unmodelled, Raised) as e:
            raise AnalysisError(f"R13.4: _ds_usage_analysis outside the evaluator's language ({label}): {e}")
        if not isinstance(res, dict) or not {"insertion", "deletion", "global_inputs"} <= set(res):
            raise AnalysisError(f"R13.4: _ds_usage_analysis does not return DatasetSchedule(insertion=, deletion=, global_inputs=, ...): {res!r}")
        produced = {n for d in deps.values() for n in d.outputs + d.persistent}
        readers: Dict[str, List[int]] = {}
        for k, d in deps.items():
            for n in d.inputs:
                readers.setdefault(n, []).append(k)
        want_ins: Dict[int, List[str]] = {}
        want_del: Dict[int, List[str]] = {}
        for n, ks in readers.items():
            if n not in produced:
                want_ins.setdefault(min(ks), []).append(n)
                want_del.setdefault(max(ks), []).append(n)
        for k, d in deps.items():
            for n in (d.outputs + d.persistent)[:1]:
                want_del.setdefault(max(readers.get(n, [k])), []).append(n)
        got_ins = {k: sorted(v) for k, v in dict(res["insertion"]).items() if v}
        got_del = {k: sorted(v) for k, v in dict(res["deletion"]).items() if v}
        wi, wd = {k: sorted(v) for k, v in want_ins.items()}, {k: sorted(v) for k, v in want_del.items()}
        rep.instance("R13.4", f"schedule/{label}/loads", nontrivial=True, sample={"insertion": got_ins})
        rep.instance("R13.5", f"schedule/{label}/releases", nontrivial=True, sample={"deletion": got_del})
        if got_ins != wi or sorted(res["global_inputs"]) != sorted(n for n in readers if n not in produced):
            rep.add(Finding("R13.4", f"R13.4/schedule/{label}", ua.module.rel, ua.node.lineno, ua.qualname,
                            f"load schedule for statements {{{', '.join(f'{k}: reads {d.inputs} produces {d.outputs + d.persistent}' for k, d in deps.items())}}}: "
                            f"insertion = {got_ins}, global_inputs = {sorted(res['global_inputs'])}; every name no statement produces must be loaded exactly once, at its first reader: {wi}"))
        if got_del != wd:
            rep.add(Finding("R13.5", f"R13.5/schedule/{label}", ua.module.rel, ua.node.lineno, ua.qualname,
                            f"release schedule for statements {{{', '.join(f'{k}: reads {d.inputs} produces {d.outputs + d.persistent}' for k, d in deps.items())}}}: "
                            f"deletion = {got_del}; every dataset must be released exactly once, at its last reader (a result nobody reads: at its own statement): {wd}"))
