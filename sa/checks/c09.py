"""C09 - cast follows the documented conversion table (DESIGN §3 C09).

R09.1 accept(from,to) as decided by Cast.check_without_mask (decision table over 8×8) == docs explicit ∪ implicit tables;
      every Cast.*_validation method passes through check_cast before returning (CFG must-pass-through)
R09.2 COMP_NAME_MAPPING == docs "Cast on datasets"; Cast.dataset_validation renames exactly when `to` is not an
      implicit promotion target of `from` (branch condition evaluated over 8×8)
R09.3 the SQL generator's _cast_expr: conversions between differently represented time types (and Time_Period→String)
      go through a vtl_* macro that exists in init.sql, never the generic CAST fall-through
Not decided: per-value conversion results (DuckDB CAST/TRUNC semantics).
"""
from __future__ import annotations

import ast
import re
from typing import Any, Dict, List, Optional, Set, Tuple

from sa import rst
from sa.cfg import CFG, describe_path
from sa.checks.c11 import DOC_NAMES, DT, docs_matrix, read_table, type_domain
from sa.core import AnalysisError, Finding, Program, Report, program, src, walk_no_nested
from sa.e6 import ClassVal, ExternalObj, Interp, Raised

CAST = "vtlengine.Operators.CastOperator.Cast"
TRANSPILER = "vtlengine.duckdb_transpiler.Transpiler.SQLTranspiler"


def macro_names(P: Program) -> Set[str]:
    names: Set[str] = set()
    sql_dir = P.root / "duckdb_transpiler" / "sql"
    if not sql_dir.is_dir():
        raise AnalysisError("anchor vanished: duckdb_transpiler/sql")
    for f in sorted(sql_dir.glob("*.sql")):
        for m in re.finditer(r"CREATE\s+(?:OR\s+REPLACE\s+)?MACRO\s+([A-Za-z_][\w]*)\s*\(", f.read_text(), re.I):
            names.add(m.group(1))
    return names


def run(rep: Report, tier: str) -> None:
    P = program()
    rep.explanation = ("Cast.check_without_mask is lowered to a decision table over the 8 documented types and compared with the "
                       "two docs list-tables; the rename branch of Cast.dataset_validation and the dispatch of "
                       "SQLTranspiler._cast_expr are evaluated symbolically over all type pairs; CFG must-pass-through of "
                       "check_cast in the three validation methods.")
    rep.rule("R09.1", "accept table of Cast.check_without_mask == docs (explicit ∪ implicit); check_cast on every path")
    rep.rule("R09.2", "COMP_NAME_MAPPING == docs; dataset measure renamed iff target is not an implicit promotion of source")
    rep.rule("R09.3", "_cast_expr routes representation-changing conversions through existing vtl_* macros")
    rep.rule("R09.7", "cast Number -> Integer truncates: the generated SQL applies TRUNC before the integer CAST (DuckDB's CAST rounds)")
    types, by_name = type_domain(P)
    rev = {v: k for k, v in by_name.items()}
    null = by_name["Null"]
    dtypes = [t for t in types if t != null]
    doc_impl = docs_matrix(P, "Implicit Casting")
    doc_expl = docs_matrix(P, "Supported conversions without mask")
    def doc_set(d: Dict[str, Set[str]], a: ClassVal) -> Set[ClassVal]:
        name = [k for k, v in DOC_NAMES.items() if f"{DT}.{v}" == a.qualname][0]
        if name not in d:
            raise AnalysisError(f"docs table has no row for {name}")
        return {ClassVal(f"{DT}.{DOC_NAMES[t]}") for t in d[name]}
    castc = P.cls(CAST)
    fcheck = P.func(f"{CAST}.check_without_mask")

    # ---- R09.1 accept table ---------------------------------------------------------------------
    accept: Dict[Tuple[ClassVal, ClassVal], bool] = {}
    for a in dtypes:
        for b in dtypes:
            it = Interp(P)
            try:
                it.call(fcheck, {"from_type": a, "to_type": b}, bound_cls=ClassVal(CAST))
                ok, how = True, "returns"
            except Raised as r:
                ok, how = False, f"raises {getattr(r.exc, 'code', r.exc)}"
                if getattr(r.exc, "code", None) != "1-1-5-4":
                    rep.add(Finding("R09.1", f"R09.1/error/{rev[a]}->{rev[b]}", fcheck.module.rel, fcheck.node.lineno, fcheck.qualname,
                                    f"rejection of cast {rev[a]}->{rev[b]} {how}, not SemanticError 1-1-5-4"))
            accept[(a, b)] = ok
            want = b in (doc_set(doc_expl, a) | doc_set(doc_impl, a))
            key = f"{rev[a]}->{rev[b]}"
            rep.instance("R09.1", key, nontrivial=a != b, sample={"pair": key, "code": how, "docs": want} if a != b and ok else None)
            if ok != want:
                rep.add(Finding("R09.1", f"R09.1/{key}", fcheck.module.rel, fcheck.node.lineno, fcheck.qualname,
                                f"cast {key}: code {'accepts' if ok else 'rejects'} (check_without_mask {how}); "
                                f"docs/data_types.rst marks it {'supported' if want else 'not supported'}"))
    # check_cast dispatch: mask None -> check_without_mask
    for mname in ("dataset_validation", "component_validation", "scalar_validation", "cast_scalar"):
        f = castc.methods.get(mname)
        if f is None:
            raise AnalysisError(f"anchor vanished: Cast.{mname}")
        g = CFG(f.node)
        def is_check(n) -> bool:
            return any(isinstance(c.func, ast.Attribute) and c.func.attr in ("check_cast", "check_without_mask") for c in g.calls_at(n))
        path = g.path_avoiding(g.entry, lambda n: n is g.exit, is_check, follow_exc=False)
        rep.instance("R09.1", f"must-pass/{mname}", nontrivial=True)
        if path is not None:
            rep.add(Finding("R09.1", f"R09.1/must-pass/{mname}", f.module.rel, f.node.lineno, f.qualname,
                            "a path returns a result without calling check_cast: forbidden conversions accepted on it",
                            describe_path(path)))
    fcc = P.func(f"{CAST}.check_cast")
    it = Interp(P)
    called: List[str] = []
    # structural: the mask-is-None branch must call check_without_mask with (from_type, to_type) in order
    ok_dispatch = False
    for n in walk_no_nested(fcc.node):
        if isinstance(n, ast.Call) and isinstance(n.func, ast.Attribute) and n.func.attr == "check_without_mask":
            params_ = [x.arg for x in fcc.node.args.args if x.arg != "cls"]
            ok_dispatch = [src(a) for a in n.args] == params_[:2] and not n.keywords
    rep.instance("R09.1", "dispatch/check_cast", nontrivial=True)
    if not ok_dispatch:
        rep.add(Finding("R09.1", "R09.1/dispatch/check_cast", fcc.module.rel, fcc.node.lineno, fcc.qualname,
                        "check_cast does not forward (from_type, to_type) to check_without_mask"))

    # ---- R09.2 ---------------------------------------------------------------------------------------
    tabs = rst.tables(P.repo / "docs" / "data_types.rst")
    t = rst.find(tabs, "Cast on datasets")
    doc_names = {r[0]: r[1] for r in t.rows[1:]}
    it = Interp(P)
    cnm = it.module_name(P.module(DT), "COMP_NAME_MAPPING", fcheck)
    for tname, cv in by_name.items():
        if cv == null:
            continue
        docname = [k for k, v in DOC_NAMES.items() if f"{DT}.{v}" == cv.qualname][0]
        rep.instance("R09.2", f"name/{docname}", nontrivial=True, sample={"target": docname, "code": cnm.get(cv), "docs": doc_names.get(docname)})
        if cnm.get(cv) != doc_names.get(docname):
            rep.add(Finding("R09.2", f"R09.2/name/{docname}", "src/vtlengine/DataTypes/__init__.py",
                            P.module(DT).assigns["COMP_NAME_MAPPING"].lineno, "COMP_NAME_MAPPING",
                            f"cast to {docname} renames the measure to {cnm.get(cv)!r}; docs say {doc_names.get(docname)!r}"))
    fdv = P.func(f"{CAST}.dataset_validation")
    from sa import structmodel as _sm
    from sa.e6 import Unmodelled as _Unm
    _M = _sm.Model(P)
    for a in dtypes:
        for b in dtypes:
            if not accept[(a, b)]:
                continue
            ds = _M.ds("DS_1", ["A"], ["M"])
            ds.components["M"].data_type = a
            ext = {"copy": lambda x: _sm.MComp(x.name, x.role, x.data_type, x.nullable) if isinstance(x, _sm.MComp) else x,
                   "Component": lambda **kw: _sm.MComp(kw["name"], kw["role"], kw.get("data_type"), kw.get("nullable", True)),
                   "Dataset": _M.mk_dataset, "VirtualCounter._new_ds_name": lambda: "__VDS__", "cls.check_cast": lambda *x: None}
            try:
                res = Interp(P, externals=ext).call(fdv, {"operand": ds, "to_type": b, "mask": None}, bound_cls=ClassVal(CAST))
            except Raised as r:
                raise AnalysisError(f"Cast.dataset_validation raised {r.exc} for {rev[a]}->{rev[b]}")
            except _Unm as e:
                raise AnalysisError(f"Cast.dataset_validation outside the evaluator's language: {e}")
            ms = [c_.name for c_ in res.get_measures()]
            if len(ms) != 1:
                raise AnalysisError(f"Cast.dataset_validation: result of {rev[a]}->{rev[b]} has measures {ms}")
            renamed = ms[0] != "M"
            want = b not in doc_set(doc_impl, a)
            key = f"{rev[a]}->{rev[b]}"
            rep.instance("R09.2", f"rename/{key}", nontrivial=a != b)
            if renamed != want or (renamed and ms[0] != cnm.get(b)):
                rep.add(Finding("R09.2", f"R09.2/rename/{key}", fdv.module.rel, fdv.node.lineno, fdv.qualname,
                                f"cast {key} on a dataset: the measure M comes out as {ms[0]!r}; documented rule: "
                                f"{'renamed to ' + repr(cnm.get(b)) + ' (not an implicit promotion)' if want else 'kept (implicit promotion)'}"))

    # ---- R09.3 ---------------------------------------------------------------------------------------
    fce = P.func(f"{TRANSPILER}._cast_expr")
    macros = macro_names(P)
    rep.floor("SQL macros", len(macros), 40)
    TIME = {by_name["Date"], by_name["Time_Period"], by_name["Time"]}
    cls_name = {cv: cv.short for cv in dtypes}
    fallthrough: List[str] = []
    for a in dtypes:
        for b in dtypes:
            if not accept[(a, b)] or a == b:
                continue
            for fmt in ("vtl", "sdmx_reporting", "sdmx_gregorian", "natural"):
                for src_spelling in (cls_name[a], rev[a]):
                    it = Interp(P, externals={"_match_plain_sql_string_literal": lambda e: None,
                                              "_try_normalize_time_period": lambda e: None})
                    selfobj = ExternalObj({"time_period_output_format": fmt})
                    try:
                        sql = it.call(fce, {"self": selfobj, "expr": "X", "duckdb_type": "T", "target_type_str": rev[b],
                                            "mask": None, "source_type_str": src_spelling})
                    except Raised as r:
                        raise AnalysisError(f"_cast_expr raised {r.exc} for {rev[a]}->{rev[b]}")
                    if not isinstance(sql, str):
                        raise AnalysisError(f"_cast_expr returned non-string for {rev[a]}->{rev[b]}")
                    key = f"{rev[a]}[{src_spelling}]->{rev[b]}/{fmt}"
                    needs_macro = (a in TIME and b in TIME) or (a == by_name["Time_Period"] and b == by_name["String"])
                    used = set(re.findall(r"\b(vtl_\w+)\s*\(", sql))
                    if fmt == "vtl" or needs_macro:
                        rep.instance("R09.3", key, nontrivial=needs_macro,
                                     sample={"pair": key, "sql": sql} if needs_macro and fmt == "vtl" else None)
                    for u in used:
                        if u not in macros:
                            rep.add(Finding("R09.3", f"R09.3/undefined-macro/{u}", fce.module.rel, fce.node.lineno, fce.qualname,
                                            f"cast {key} emits {sql!r}: macro {u} is not defined in duckdb_transpiler/sql"))
                    if needs_macro and not used:
                        rep.add(Finding("R09.3", f"R09.3/generic-cast/{rev[a]}[{src_spelling}]->{rev[b]}", fce.module.rel, fce.node.lineno,
                                        fce.qualname, f"cast {key} falls through to {sql!r}: a conversion between differently "
                                        f"represented types must use a vtl_* macro"))
                    # R09.7: Number -> Integer TRUNCATES (VTL: cast(3.7, integer) = 3); DuckDB's numeric -> integer CAST rounds to nearest,
                    # so the conversion must go through TRUNC (or floor/ceil by sign); other sources are unaffected
                    if rev[a] == "Number" and rev[b] == "Integer" and fmt == "vtl":
                        rep.instance("R09.7", f"number-to-integer/{src_spelling}", nontrivial=True, sample={"sql": sql})
                        if not re.search(r"\bTRUNC\s*\(", sql, re.I):
                            rep.add(Finding("R09.7", f"R09.7/number-to-integer/{src_spelling}", fce.module.rel, fce.node.lineno, fce.qualname,
                                            f"cast Number -> Integer is emitted as {sql!r}: DuckDB's CAST of a non-integral number to an integer type rounds to nearest (3.7 -> 4, -1.5 -> -2), "
                                            f"VTL's cast truncates (3, -1; Cast.cast_scalar uses int()); the value must pass through TRUNC"))
                    if not needs_macro and not used and fmt == "vtl" and src_spelling == cls_name[a] and sql == "CAST(X AS T)":
                        fallthrough.append(f"{rev[a]}->{rev[b]}")
    # R09.7 (cont.): the source type of a COMPUTED operand (a BinOp, a function call, a scalar variable) is not known to the transpiler (None): it may be
    # a non-integral number, so the integer cast must truncate there too
    for unknown in (None, "", "unknown"):
        it = Interp(P, externals={"_match_plain_sql_string_literal": lambda e: None, "_try_normalize_time_period": lambda e: None})
        try:
            sql_u = it.call(fce, {"self": ExternalObj({"time_period_output_format": "vtl"}), "expr": "X", "duckdb_type": "BIGINT", "target_type_str": "Integer", "mask": None, "source_type_str": unknown})
        except Raised as r:
            raise AnalysisError(f"_cast_expr raised {r.exc} for <computed expression> -> Integer")
        rep.instance("R09.7", f"computed-to-integer/{unknown!r}", nontrivial=True, sample={"source_type": unknown, "sql": sql_u})
        if isinstance(sql_u, str) and not re.search(r"\bTRUNC\s*\(|\bFLOOR\s*\(", sql_u, re.I):
            rep.add(Finding("R09.7", f"R09.7/computed-to-integer/{unknown!r}", fce.module.rel, fce.node.lineno, fce.qualname,
                            f"cast(<computed expression>, integer) - the operand's type is not known to the transpiler (source type {unknown!r}) - is emitted as {sql_u!r}: the operand may be a "
                            f"non-integral number (`cast(Me_1 * 1.0, integer)`, `cast(7 / 2, integer)`), and DuckDB's CAST rounds where VTL truncates (4 instead of 3)"))
    rep.note("R09.3 (information) accepted pairs served by the generic CAST(expr AS type): " + ", ".join(sorted(set(fallthrough))))
    rep.analysed = {"type_pairs": len(accept), "accepted_pairs": sum(accept.values()), "macros_defined": len(macros)}
    # ---- R09.4: the Time -> Time_Period conversion macro writes ISO weeks with the ISO year (rule shared with C08) ----
    from sa.checks import c08
    from sa import sqlx as _sqlx
    c08.iso_year_rule(rep, {k.lower(): v for k, v in _sqlx.load_macros(P).items()}, "R09.4", only={"vtl_interval_to_period"})
    # ---- R09.5: integer arithmetic in the conversion macros uses integer division ----
    from sa import intdiv
    rep.rule("R09.5", "conversion macros: no `/` between integer-typed operands (DuckDB `/` is float division: period numbers would be written '2.0')")
    ndiv = intdiv.rule(rep, P, "R09.5", only_macros={k.lower() for k in macros if "_to_" in k.lower() or "cast" in k.lower() or "parse" in k.lower() or "normalize" in k.lower()})
    rep.floor("R09.5 divisions in conversion macros", ndiv, 1)
    # ---- R09.6: Time -> Time_Period maps exactly the intervals that ARE a period, to that period (calendar decision table) ----
    rep.rule("R09.6", "vtl_interval_to_period: interval == [start(P), end(P)] of a regular period P  <=>  result is P; every other interval raises")
    _interval_to_period_table(P, rep)
    # ---- R09.9 a value that cannot be converted to a Date ends in the documented VTL error, whichever wording DuckDB uses ----
    rep.rule("R09.9", "cast to Date / Time of an unconvertible value: every DuckDB wording of the failure (bad format, field value out of range) is mapped to RunTimeError 2-1-19-8")
    from sa.e6 import ExcVal as _EV9, Unmodelled as _Un9
    fme = P.func("vtlengine.duckdb_transpiler.io._execution._map_query_error")
    wordings = {
        "bad-format/timestamp": 'Conversion Error: invalid timestamp field format: "not-a-date", expected format is (YYYY-MM-DD HH:MM:SS[.US][±HH[:MM[:SS]]| ZONE])',
        "bad-format/date": 'Conversion Error: invalid date field format: "2020-1", expected format is (YYYY-MM-DD)',
        "out-of-range/timestamp": 'Conversion Error: timestamp field value out of range: "2020-02-30", expected format is (YYYY-MM-DD HH:MM:SS[.US][±HH[:MM[:SS]]| ZONE])',
        "out-of-range/date": 'Conversion Error: date field value out of range: "2021-02-29", expected format is (YYYY-MM-DD)',
    }
    for wl, wtext in wordings.items():
        try:
            got9 = Interp(P).call(fme, {"error": wtext, "sql_query": 'SELECT CAST("Me_1" AS TIMESTAMP) FROM "DS_1"'})
        except Raised as r9:
            got9 = f"<raises {getattr(r9.exc, 'cls', r9.exc)}>"
        except _Un9 as e:
            raise AnalysisError(f"R09.9: _map_query_error outside the evaluator's language: {e}")
        code9 = got9.code if isinstance(got9, _EV9) else None
        rep.instance("R09.9", f"date-conversion-error/{wl}", nontrivial=True, sample={"duckdb message": wtext[:70], "mapped to": code9})
        if code9 != "2-1-19-8":
            rep.add(Finding("R09.9", f"R09.9/date-conversion-error/{wl}", fme.module.rel, fme.node.lineno, fme.qualname,
                            f"DuckDB's message `{wtext[:80]}` (cast(<string>, date) of a value that is no date) is mapped to {got9 if code9 is None else code9!r}, not to RunTimeError 2-1-19-8: "
                            f"the raw ConversionException escapes from run() (None = no mapping, the caller re-raises the DuckDB error)"))
    # ---- R09.8 cast(x, date) keeps what a Date can hold: the cast's SQL type == the type the loaders store a Date with a time part in ----
    rep.rule("R09.8", "the SQL type cast(..., date) converts to is the type the loaders use for Date values that carry a time of day (no silent truncation to the day)")
    om = P.module("vtlengine.duckdb_transpiler.Transpiler.operators")
    tmap = om.assigns.get("VTL_TO_DUCKDB_TYPES")
    if not isinstance(tmap, ast.Dict):
        raise AnalysisError("VTL_TO_DUCKDB_TYPES is not a dict literal")
    cast_date = next((v.value for k, v in zip(tmap.keys, tmap.values) if isinstance(k, ast.Constant) and k.value == "Date" and isinstance(v, ast.Constant)), None)
    fdd = P.func("vtlengine.duckdb_transpiler.io._io._detect_date_type_overrides")
    loader_types = {x.value for n_ in walk_no_nested(fdd.node) if isinstance(n_, ast.Assign) and isinstance(n_.targets[0], ast.Subscript) for x in ast.walk(n_.value)
                    if isinstance(x, ast.Constant) and isinstance(x.value, str)}
    rep.instance("R09.8", "date-cast-type", nontrivial=True, sample={"cast target for Date": cast_date, "loader type for a Date with a time part": sorted(loader_types)})
    if len(loader_types) != 1:
        raise AnalysisError(f"_detect_date_type_overrides: storage type for Date values with a time part not found ({loader_types})")
    if cast_date != next(iter(loader_types)):
        rep.add(Finding("R09.8", "R09.8/date-cast-type", om.rel, tmap.lineno, "VTL_TO_DUCKDB_TYPES",
                        f"cast(x, date) converts to {cast_date!r}, but a Date value with a time of day is stored as {next(iter(loader_types))!r} by the loaders: "
                        f"cast(\"2021-03-04 10:30:00\", date) silently drops the time part (and cast(<Date column>, date) is no longer the identity)"))
    rep.assumptions = ["docs/data_types.rst is the oracle for which conversions exist",
                       "type names reach _cast_expr spelled as SCALAR_TYPES keys (target) and class names or keys (source)"]


def _interval_to_period_table(P: Program, rep: Report) -> None:  # noqa: C901
    import calendar
    import datetime as dt
    from sa import sqlconc, sqlexpr, sqlx
    macros = sqlx.load_macros(P)
    if "vtl_interval_to_period" not in macros:
        raise AnalysisError("anchor vanished: macro vtl_interval_to_period")
    mac = macros["vtl_interval_to_period"]
    days = set()
    for y in (2019, 2020, 2021):
        for m in range(1, 13):
            days.add(dt.date(y, m, 1))
            days.add(dt.date(y, m, calendar.monthrange(y, m)[1]))
        days.add(dt.date(y, 3, 15))
        days.add(dt.date(y, 8, 17))
        for d0 in (dt.date(y, 1, 1), dt.date(y, 12, 31)):
            mon = d0 - dt.timedelta(days=d0.weekday())
            for k in (-7, 0, 7):
                days.add(mon + dt.timedelta(days=k))
                days.add(mon + dt.timedelta(days=k + 6))
    grid = sorted(days)

    def oracle(d1: dt.date, d2: dt.date):
        if d1 == d2:
            return (d1.year, "D", d1.timetuple().tm_yday)
        if d1.year == d2.year:
            y = d1.year
            if (d1, d2) == (dt.date(y, 1, 1), dt.date(y, 12, 31)):
                return (y, "A", 1)
            if (d1, d2) == (dt.date(y, 1, 1), dt.date(y, 6, 30)):
                return (y, "S", 1)
            if (d1, d2) == (dt.date(y, 7, 1), dt.date(y, 12, 31)):
                return (y, "S", 2)
            if d1.day == 1 and d1.month in (1, 4, 7, 10) and d2 == dt.date(y, d1.month + 2, calendar.monthrange(y, d1.month + 2)[1]):
                return (y, "Q", (d1.month - 1) // 3 + 1)
            if d1.day == 1 and d2 == dt.date(y, d1.month, calendar.monthrange(y, d1.month)[1]):
                return (y, "M", d1.month)
        if d1.isoweekday() == 1 and d2 == d1 + dt.timedelta(days=6):
            iy, iw, _ = d1.isocalendar()
            return (iy, "W", iw)
        return None

    def parse_period(s_: str):
        m = re.fullmatch(r"(\d{4})-?([ASQMWD])?(\d{1,3})?", s_.strip())
        if not m:
            return ("malformed", s_)
        ind = m.group(2) or "A"
        return (int(m.group(1)), ind, int(m.group(3)) if m.group(3) else 1)
    n = n_period = 0
    shown = 0
    for d1 in grid:
        for d2 in grid:
            if d2 < d1 or (d2 - d1).days > 800:
                continue
            n += 1
            want = oracle(d1, d2)
            iv = f"{d1.isoformat()}/{d2.isoformat()}"
            try:
                got = sqlconc.call_macro(macros, "vtl_interval_to_period", iv)
                got_p = parse_period(str(got)) if got is not None else ("null",)
            except sqlconc.SqlError:
                got_p = None
            except sqlexpr.ParseError as e:
                raise AnalysisError(f"R09.6: vtl_interval_to_period is outside the SQL evaluator's language: {e}")
            if want is not None:
                n_period += 1
                rep.instance("R09.6", f"period/{iv}", nontrivial=True, sample={"interval": iv, "period": want})
            if got_p != want and shown < 12:
                shown += 1
                rep.add(Finding("R09.6", f"R09.6/{iv}", mac.file, mac.line, "macro:vtl_interval_to_period",
                                f"cast of the Time value {iv} to time_period gives {got_p if got_p is not None else 'an error'}; by the calendar it is "
                                + (f"the period {want}" if want is not None else "not a regular period (A, S, Q, M, W, D) and must be rejected")))
    rep.instance("R09.6", "intervals-evaluated", nontrivial=True, sample={"intervals": n, "of which periods": n_period})
    rep.floor("R09.6 intervals evaluated", n, 3000)
    rep.floor("R09.6 intervals that are periods", n_period, 100)
