"""C22 - public API calls never modify the caller's arguments (DESIGN §3 C22).

R22.1 no mutation site (store into subscript/attribute, del, augmented assignment, mutating method, pandas
      inplace=True) is reachable on a value that IS or is REACHABLE FROM a parameter of run, run_sdmx,
      semantic_analysis, validate_dataset, prettify, generate_sdmx, validate_value_domain, validate_external_routine
      (interprocedural alias/effect analysis, E2).
Not decided: mutation inside external libraries (pandas, pysdmx, jsonschema, duckdb) given tainted arguments - the
externals met with tainted arguments are listed in the evidence and assumed non-mutating.
"""
from __future__ import annotations

from typing import Dict, List

from sa.core import AnalysisError, Finding, Program, Report, program
from sa.effects import EffectAnalysis

ENTRIES = ["run", "run_sdmx", "semantic_analysis", "validate_dataset", "prettify", "generate_sdmx", "validate_value_domain",
           "validate_external_routine"]

# Mutation sites on tainted values that were read and found NOT to be caller-visible; key = function / statement text.
TRIAGED: Dict[str, str] = {}


def run(rep: Report, tier: str) -> None:
    P = program()
    rep.explanation = ("Interprocedural, flow-sensitive alias analysis (taints S=the caller's object, E=reachable from it, C=fresh "
                       "container holding its elements; deepcopy cuts) from every parameter of the public API functions through "
                       "resolved callees; every store/del/mutating-method/inplace site whose receiver is S or E is a violation.")
    rep.rule("R22.1", "no mutation site reachable on an alias of (or an object reachable from) a public API parameter")
    A = EffectAnalysis(P)
    total_sites = 0
    for e in ENTRIES:
        q = f"vtlengine.API.{e}"
        f = P.func(q)
        summ = A.analyse_entry(q)
        params = [p for p in f.params]
        for p in params:
            sites = [s for s in summ.sites if p in s.origins]
            rep.instance("R22.1", f"{e}({p})", nontrivial=True,
                         sample={"entry": e, "parameter": p, "mutation_sites_on_aliases": len(sites)} if p in ("datapoints", "data_structures", "script") else None)
            for s in sites:
                total_sites += 1
                key = f"R22.1/{s.func}/{s.text}"
                if f"{s.func}/{s.text}" in TRIAGED:
                    rep.exemption("R22.1", f"{s.func}/{s.text}", TRIAGED[f"{s.func}/{s.text}"])
                    continue
                rep.add(Finding("R22.1", key, s.file, s.line, s.func,
                                f"`{s.text}` ({s.kind}) mutates an object that is or is reachable from parameter(s) {list(s.origins)} of "
                                f"API.{e}()", list(s.chain)))
    rep.floor("functions analysed from the API entry points", len(A.functions_analysed), 40)
    rep.analysed = {"entries": ENTRIES, "functions_analysed": len(A.functions_analysed), "summaries": len(A.memo),
                    "externals_called_with_tainted_arguments": dict(sorted(A.externals_with_taint.items(), key=lambda kv: -kv[1])[:60]),
                    "unresolved_internal_calls_with_tainted_arguments": dict(sorted(A.unresolved_with_taint.items(), key=lambda kv: -kv[1])[:40])}
    rep.assumptions = ["external library calls (pandas constructors/readers, pysdmx, jsonschema, duckdb register/execute, pathlib, json) do not "
                       "mutate their arguments", "pandas methods without inplace=True return new objects",
                       "unresolved calls do not mutate their arguments (listed in the evidence)"]
