"""C25 - generate_sdmx produces a TransformationScheme equivalent to the script (DESIGN §3 C25).  Structural clauses:

R25.1 every kind of top-level statement the AST constructor can produce is mapped by ast_to_sdmx's isinstance chain (an unmapped
      kind is silently dropped from the scheme); a subclass is tested before its base class
R25.2 each Assignment / PersistentAssignment yields exactly one Transformation whose result is the assigned name, whose
      expression renders the right-hand side, and whose is_persistent is the constant of its branch; ids are numbered by a
      counter incremented once per item on every path; rulesets/operators are rendered from the whole definition and the
      ruleset type/scope labels follow the node class / signature kind
R25.3 the compact (non-pretty) renderer, which writes every expression / definition of the scheme, reads every semantic field
      of every node class the constructor builds (same rule as R24.1, in the other mode)
R25.4 the renderer rules shared with C24 (literals, operator shapes, elided defaults, names) hold - the scheme's texts are
      produced by the same functions
R25.5 the rendered texts are not rewritten afterwards (taint rule over the generator functions)
R25.6 generate_sdmx hands the whole parsed script to ast_to_sdmx and returns its result
Not decided: that run() of the scheme equals run() of the script (needs the parser and pysdmx's generate_vtl_script).
"""
from __future__ import annotations

import ast
from typing import Any, Dict, List, Optional, Set, Tuple

from sa import astctor, e7, g4, render
from sa.cfg import CFG
from sa.checks import c24
from sa.core import AnalysisError, Finding, FuncInfo, Program, Report, program, src, walk_no_nested

API = "vtlengine.API._InternalApi"


def _finding(rule: str, key: str, f: FuncInfo, line: int, msg: str) -> Finding:
    return Finding(rule, f"{rule}/{key}", f.module.rel, line, f.qualname, msg)


class _Sub(Report):
    """Collects the findings of the shared C24 rules and re-labels them for C25."""


def run(rep: Report, tier: str) -> None:  # noqa: C901
    P = program()
    G = g4.load(P)
    NC = e7.node_classes(P)
    rep.explanation = ("ast_to_sdmx analysed as a total mapping over the top-level node classes the AST constructor can return "
                       "(return-class closure of visitStatement); def-use of the Transformation fields; CFG rule on the id counters; "
                       "the compact-mode renderer checked for field coverage and for the literal/operator/name rules it shares with prettify.")
    a2s = P.func(f"{API}.ast_to_sdmx")
    # ---------------- R25.1 ----------------
    rep.rule("R25.1", "every top-level node class the constructor can return is mapped by ast_to_sdmx; subclasses tested before bases")
    vst = [g for g in P.iter_functions() if g.name == "visitStatement" and g.module.name == "vtlengine.AST.ASTConstructor"]
    if not vst:
        raise AnalysisError("anchor vanished: ASTVisitor.visitStatement")
    top = astctor.returned_classes(P, vst[0], set(NC))
    if len(top) < 5:
        raise AnalysisError(f"top-level classes of the constructor not found ({top})")
    rep.analysed["top_level_classes"] = sorted(top)
    loop = next((n for n in walk_no_nested(a2s.node) if isinstance(n, ast.For) and src(n.iter) == "ast.children"), None)
    if loop is None:
        raise AnalysisError("ast_to_sdmx: loop over ast.children not found")
    chain: List[Tuple[Set[str], ast.If]] = []
    cur: Optional[ast.stmt] = loop.body[0] if loop.body else None
    while isinstance(cur, ast.If):
        t = cur.test
        if not (isinstance(t, ast.Call) and src(t.func) == "isinstance" and src(t.args[0]) == src(loop.target)):
            raise AnalysisError(f"ast_to_sdmx: unexpected test in the dispatch chain: {src(t)}")
        a = t.args[1]
        names = {src(x).split(".")[-1] for x in (a.elts if isinstance(a, ast.Tuple) else [a])}
        chain.append((names, cur))
        cur = cur.orelse[0] if len(cur.orelse) == 1 else None
    mapped: Set[str] = set().union(*[c for c, _ in chain]) if chain else set()
    for cname in sorted(top):
        rep.instance("R25.1", f"mapped/{cname}")
        if cname not in mapped:
            # a subclass of a mapped class is mapped through its base
            if any(P.is_subclass(f"vtlengine.AST.{cname}", f"vtlengine.AST.{m}") for m in mapped):
                continue
            rep.add(_finding("R25.1", f"mapped/{cname}", a2s, loop.lineno,
                             f"a top-level {cname} (built by the AST constructor) matches no branch of ast_to_sdmx and is silently dropped: the scheme of a "
                             f"script containing it is not equivalent to the script"))
    seen: List[str] = []
    for names, ifn in chain:
        for nm in sorted(names):
            rep.instance("R25.1", f"order/{nm}")
            for earlier in seen:
                if nm != earlier and P.is_subclass(f"vtlengine.AST.{nm}", f"vtlengine.AST.{earlier}"):
                    rep.add(_finding("R25.1", f"order/{nm}", a2s, ifn.lineno,
                                     f"isinstance(child, {nm}) is tested after its base class {earlier}: every {nm} is handled as a {earlier} "
                                     f"(persistent assignments would lose their persistence)"))
        seen.extend(sorted(names))

    # ---------------- R25.2 ----------------
    rep.rule("R25.2", "one item per statement with the statement's own name / persistence / rendered text; ids from per-path counters")
    gt = P.func(f"{API}.__generate_transformation")
    tr = next((n for n in ast.walk(gt.node) if isinstance(n, ast.Call) and src(n.func) == "Transformation"), None)
    if tr is None:
        raise AnalysisError("__generate_transformation: Transformation(...) not found")
    kw = {k.arg: k.value for k in tr.keywords}

    def single_def(f: FuncInfo, name: str) -> Optional[ast.AST]:
        vals = [n.value for n in walk_no_nested(f.node) if isinstance(n, ast.Assign) and len(n.targets) == 1 and isinstance(n.targets[0], ast.Name) and n.targets[0].id == name]
        return vals[0] if len(vals) == 1 else None

    def resolved(f: FuncInfo, e: Optional[ast.AST]) -> str:
        if isinstance(e, ast.Name):
            d = single_def(f, e.id)
            if d is not None:
                return src(d)
        return src(e) if e is not None else ""
    checks = {
        "result": (lambda s: s == "child.left.value", "the Transformation's result is not the assigned name child.left.value"),
        "expression": (lambda s: ".render(" in s and "child.right" in s and "pretty" not in s, "the Transformation's expression is not the rendering of the right-hand side child.right"),
        "is_persistent": (lambda s: s == "is_persistent", "is_persistent is not the value chosen by the dispatch branch"),
    }
    for fld, (pred, msg) in checks.items():
        rep.instance("R25.2", f"Transformation.{fld}", sample=resolved(gt, kw.get(fld)))
        if not pred(resolved(gt, kw.get(fld))):
            rep.add(_finding("R25.2", f"Transformation.{fld}", gt, tr.lineno, f"{msg} (it is `{resolved(gt, kw.get(fld))}`)"))
    # branch constants
    for names, ifn in chain:
        calls = [c for st in ifn.body for c in ast.walk(st) if isinstance(c, ast.Call) and src(c.func).endswith("__generate_transformation")]
        for c in calls:
            v = next((k.value for k in c.keywords if k.arg == "is_persistent"), None)
            want = names == {"PersistentAssignment"}
            key = f"is_persistent/{'+'.join(sorted(names))}"
            rep.instance("R25.2", key)
            if not (isinstance(v, ast.Constant) and v.value is want):
                rep.add(_finding("R25.2", key, a2s, c.lineno, f"the {sorted(names)} branch passes is_persistent={src(v) if v is not None else None}; the statement kind requires {want}"))
            ch = next((k.value for k in c.keywords if k.arg == "child"), None)
            rep.instance("R25.2", f"child/{'+'.join(sorted(names))}")
            if ch is None or src(ch) != src(loop.target):
                rep.add(_finding("R25.2", f"child/{'+'.join(sorted(names))}", a2s, c.lineno, "the transformation is not generated from the statement being visited"))
    # counters: every append in a branch is preceded on every path by exactly one increment of the counter it passes
    cfg = CFG(a2s.node, for_nonempty=True)
    for names, ifn in chain:
        appends = [st for st in ifn.body if isinstance(st, ast.Expr) and isinstance(st.value, ast.Call) and src(st.value.func).endswith(".append")]
        incs = [st for st in ifn.body if isinstance(st, ast.AugAssign) and isinstance(st.op, ast.Add) and isinstance(st.value, ast.Constant) and st.value.value == 1]
        key = f"counter/{'+'.join(sorted(names))}"
        rep.instance("R25.2", key)
        ok = len(appends) == 1 and len(incs) == 1 and ifn.body.index(incs[0]) < ifn.body.index(appends[0])
        if ok:
            cnt = src(incs[0].target)
            # the item appended is generated (in the append statement or in a statement between the increment and it) with count=<that counter>
            span = ifn.body[ifn.body.index(incs[0]) + 1:ifn.body.index(appends[0]) + 1]
            passed = [src(k.value) for st_ in span for c in ast.walk(st_) if isinstance(c, ast.Call) for k in c.keywords if k.arg == "count"]
            ok = passed == [cnt] and all(isinstance(st_, (ast.Assign, ast.Expr)) for st_ in span)
            arg0 = appends[0].value.args[0] if appends[0].value.args else None
            if ok and isinstance(arg0, ast.Name):  # appended through a temporary: it must be the item generated in this branch
                ok = any(isinstance(st_, ast.Assign) and any(isinstance(t, ast.Name) and t.id == arg0.id for t in st_.targets) and isinstance(st_.value, ast.Call)
                         and any(k.arg == "count" for k in st_.value.keywords) for st_ in span)
        if not ok:
            rep.add(_finding("R25.2", key, a2s, ifn.lineno, f"the {sorted(names)} branch does not (increment its own counter exactly once, then append one item numbered by it): "
                                                           f"item ids would repeat or an item would be missing"))
    # rulesets / operators rendered from the whole node; labels
    for fname, label in (("__generate_udo", "operator_definition"),):
        f = P.func(f"{API}.{fname}")
        call = next((n for n in ast.walk(f.node) if isinstance(n, ast.Call) and any(k.arg == label for k in n.keywords)), None)
        rep.instance("R25.2", f"{fname}/{label}")
        val = resolved(f, next((k.value for k in call.keywords if k.arg == label), None)) if call else ""
        if not (".render(" in val and "ast=child" in val.replace(" ", "") and "pretty" not in val):
            rep.add(_finding("R25.2", f"{fname}/{label}", f, f.node.lineno, f"{label} is not the rendering of the whole definition node (it is `{val}`)"))
    gr = P.func(f"{API}.__generate_ruleset")
    # decided by evaluating __generate_ruleset on model nodes (finite evaluator): kind x signature
    from sa.e6 import Interp as _I, Raised as _Ra, Unmodelled as _Un
    from sa.structmodel import _isinstance as _sm_isinstance
    sig_texts = {G.tokens.get("VARIABLE"), G.tokens.get("VALUE_DOMAIN")}
    if sig_texts != {"variable", "valuedomain"}:
        raise AnalysisError(f"grammar texts of VARIABLE / VALUE_DOMAIN are {sig_texts}")

    class _Node:
        def __init__(self, cls_: str, sig: str) -> None:
            self._cls, self.signature_type, self.name = cls_, sig, "rs_1"

    class _Text(str):
        """the rendered text, remembering what was rendered: any edit of it yields a plain str"""
        node: Any = None
        opts: Any = ()

    class _Renderer:
        def __init__(self, **kw: Any) -> None:
            self.kw = kw

        def render(self, ast: Any = None, **kw: Any) -> Any:  # noqa: A002
            r = _Text("define  ruleset \"a  b\"\n\t(x)")
            r.node, r.opts = ast, tuple(sorted(self.kw.items()))
            return r
    for kind, cls_ in (("datapoint", "DPRuleset"), ("hierarchical", "HRuleset")):
        for sig in sorted(sig_texts):
            node = _Node(cls_, sig)
            try:
                got = _I(P, externals={"Ruleset": lambda **kw: kw, "ASTString": _Renderer,
                                       "isinstance": _sm_isinstance}
                         ).call(gr, {"child": node, "count": 7})
            except (_Un, _Ra) as e:
                raise AnalysisError(f"R25.2: __generate_ruleset outside the evaluator's language: {e}")
            rep.instance("R25.2", f"ruleset/{kind}/{sig}", sample={k: (v if isinstance(v, str) else "…") for k, v in got.items()} if isinstance(got, dict) else None)
            if not isinstance(got, dict):
                raise AnalysisError("R25.2: __generate_ruleset does not return Ruleset(...)")
            if got.get("ruleset_type") != kind:
                rep.add(_finding("R25.2", "ruleset_type", gr, gr.node.lineno, f"a {cls_} node is given ruleset_type={got.get('ruleset_type')!r}: it must be 'datapoint' exactly for DPRuleset nodes and 'hierarchical' otherwise"))
            if got.get("ruleset_scope") != sig:
                rep.add(_finding("R25.2", "ruleset_scope", gr, gr.node.lineno, f"a ruleset whose signature is `{sig}` is given ruleset_scope={got.get('ruleset_scope')!r} (grammar texts {sorted(sig_texts)})"))
            rd = got.get("ruleset_definition")
            if not (isinstance(rd, _Text) and rd.node is node and not any(k == "pretty" and v for k, v in rd.opts)):
                rep.add(_finding("R25.2", "__generate_ruleset/ruleset_definition", gr, gr.node.lineno, f"ruleset_definition is not the compact rendering of the whole definition node (it is `{rd!r}`)"))
            if got.get("id") != "R7":
                rep.add(_finding("R25.2", "ruleset_id", gr, gr.node.lineno, f"the ruleset numbered 7 gets the id {got.get('id')!r}"))

    # ---------------- R25.2 (cont.) whole function evaluated: a script with every kind of statement yields one item per statement ----------------
    class _St:
        def __init__(self, cls_: str, **kw: Any) -> None:
            self._cls = cls_
            self.__dict__.update(kw)
    kids = [_St("Assignment", left=_St("VarID", value="A"), right=_St("X", tag="a")), _St("DPRuleset", name="dpr", signature_type="variable"),
            _St("Operator", op="double"), _St("PersistentAssignment", left=_St("VarID", value="B"), right=_St("X", tag="b")),
            _St("HRuleset", name="hr", signature_type="valuedomain"), _St("Operator", op="triple"), _St("Assignment", left=_St("VarID", value="C"), right=_St("X", tag="c"))]
    mk = lambda kind: (lambda **kw: dict(kw, _kind=kind))  # noqa: E731
    try:
        scheme = _I(P, externals={"Ruleset": mk("Ruleset"), "Transformation": mk("Transformation"), "UserDefinedOperator": mk("UserDefinedOperator"), "RulesetScheme": mk("RulesetScheme"),
                                  "UserDefinedOperatorScheme": mk("UserDefinedOperatorScheme"), "TransformationScheme": mk("TransformationScheme"),
                                  "ASTString": _Renderer, "isinstance": _sm_isinstance}).call(a2s, {"ast": _St("Start", children=kids), "agency_id": "MD", "id": "X", "version": "1.0"})
    except (_Un, _Ra) as e:
        raise AnalysisError(f"R25.2: ast_to_sdmx outside the evaluator's language: {e}")
    if not isinstance(scheme, dict) or scheme.get("_kind") != "TransformationScheme":
        raise AnalysisError(f"R25.2: ast_to_sdmx does not return a TransformationScheme: {str(scheme)[:80]}")
    got_t = [(t.get("id"), t.get("result"), t.get("is_persistent")) for t in scheme.get("items", [])]
    got_r = [(r.get("id"), r.get("ruleset_type")) for sch in scheme.get("ruleset_schemes", []) or [] for r in sch.get("items", [])]
    got_u = [(u.get("id"), str(u.get("name", "")).split()[-1]) for sch in scheme.get("user_defined_operator_schemes", []) or [] for u in sch.get("items", [])]
    rep.instance("R25.2", "whole-script/items", sample={"transformations": got_t, "rulesets": got_r, "operators": got_u})
    want_t, want_r, want_u = [("T1", "A", False), ("T2", "B", True), ("T3", "C", False)], [("R1", "datapoint"), ("R2", "hierarchical")], [("UDO1", "double"), ("UDO2", "triple")]
    if (got_t, got_r, got_u) != (want_t, want_r, want_u):
        rep.add(_finding("R25.2", "whole-script/items", a2s, a2s.node.lineno,
                         f"a script with 3 assignments, 2 rulesets and 2 user-defined operators (interleaved) is converted to transformations {got_t}, rulesets {got_r}, operators {got_u}; "
                         f"expected {want_t}, {want_r}, {want_u}: a definition that is missing from the scheme makes the regenerated script call something it no longer defines"))

    # ---------------- R25.3 field coverage, compact mode ----------------
    rep.rule("R25.3", "compact mode: every semantic field of every constructed node class is read by the renderer")
    sites = astctor.sites(P, G, set(NC))
    built: Dict[str, List[astctor.CtorSite]] = {}
    for s in sites:
        built.setdefault(s.cls, []).append(s)
    T = render.TypedReads(P, False)
    S = P.cls(render.ASTSTR)
    n_fields = 0
    for cname in sorted(built):
        if cname in ("Start",):
            continue
        m = P.lookup_method(S, f"visit_{cname}")
        anchor = m if (m is not None and m.cls is S) else S.methods["visit_Start"]
        for f in [x for x in NC[cname].fields if x not in e7.POSITIONAL]:
            n_fields += 1
            key = f"{cname}.{f}"
            if (cname, f) in c24.DERIVED_FIELDS:
                rep.instance("R25.3", key, nontrivial=False)
                continue
            rep.instance("R25.3", key)
            if not T.has(cname, f):
                rep.add(_finding("R25.3", key, anchor, anchor.node.lineno,
                                 f"in compact mode (the mode generate_sdmx renders with) no ASTString code reads {cname}.{f}: that part of the statement is missing "
                                 f"from the Transformation / definition text"))
    rep.floor("R25.3 fields", n_fields, 110)

    # ---------------- R25.4 shared renderer rules ----------------
    rep.rule("R25.4", "renderer rules shared with prettify: literals, operator shapes, elided defaults, names (see C24 R24.3/5/6/9)")
    sub = Report("C25", tier)
    hl = P.func(f"{render.ASTSTR_MOD}._handle_literal")
    c24._check_literals(P, G, sub, hl, S)
    c24._check_dispatch(P, sub, S, built)
    c24._check_defaults(P, sub, S, built, pretty=False)
    c24._check_names(P, G, sub, S, T, NC, built)
    c24._check_presence_tests(P, sub, S, "R24.10", pretty=False)
    rep.instances += sub.instances
    rep.rules["R25.4"]["instances"] += sub.instances
    for k in sub.nontrivial:
        rep.nontrivial.add("R25.4/" + k)
    for f in sub.findings:
        rep.add(Finding("R25.4", f.key.replace("R24.", "R25.4/R24."), f.file, f.line, f.func, f.message))

    # ---------------- R25.5 rewriting ----------------
    rep.rule("R25.5", "rendered texts are not rewritten by the generator or the renderer (quote-unaware text edits)")
    sub2 = Report("C25", tier)
    funcs = [f for f in P.iter_functions() if f.module.name == render.ASTSTR_MOD] + \
            [f for f in P.iter_functions() if f.module.name == API and ("generate" in f.name or f.name == "ast_to_sdmx")] + [P.func("vtlengine.API.generate_sdmx")]
    c24._check_rewrites(P, sub2, funcs)
    rep.instances += sub2.instances
    rep.rules["R25.5"]["instances"] += sub2.instances
    for k in sub2.nontrivial:
        rep.nontrivial.add("R25.5/" + k)
    for f in sub2.findings:
        rep.add(Finding("R25.5", f.key.replace("R24.4", "R25.5"), f.file, f.line, f.func, f.message))

    # ---------------- R25.7 one renderer per rendering ----------------
    rep.rule("R25.7", "each transformation / definition is rendered by its own ASTString instance (the renderer keeps per-call flags)")
    from sa import globalsx as _gx
    n_new = 0
    for f_ in P.iter_functions():
        if f_.module.name.startswith("vtlengine.API"):
            for n_ in walk_no_nested(f_.node):
                if isinstance(n_, ast.Call) and P.resolve_expr(f_.module, n_.func) == "vtlengine.AST.ASTString.ASTString":
                    n_new += 1
                    rep.instance("R25.7", f"fresh/{f_.name}", sample=src(n_)[:60])
    rep.instance("R25.7", "stateful", sample=sorted(_gx.stateful_attrs(P, "vtlengine.AST.ASTString.ASTString"))[:8])
    _gx.report_shared_instances(P, rep, "R25.7", "vtlengine.AST.ASTString.ASTString", "a later transformation is rendered with clauses dropped or added (e.g. an aggregation without its group by)")

    # ---------------- R25.6 API wiring ----------------
    rep.rule("R25.6", "generate_sdmx passes the whole parsed script to ast_to_sdmx and returns its result unchanged")
    gs = P.func("vtlengine.API.generate_sdmx")
    rets = [n for n in walk_no_nested(gs.node) if isinstance(n, ast.Return)]
    rep.instance("R25.6", "wiring")
    ok = len(rets) == 1 and "ast_to_sdmx(" in resolved(gs, rets[0].value)
    call = next((n for n in ast.walk(gs.node) if isinstance(n, ast.Call) and src(n.func) == "ast_to_sdmx"), None)
    if call is not None:
        a0 = resolved(gs, call.args[0]) if call.args else ""
        ok = ok and a0.startswith("create_ast(")
    if not ok:
        rep.add(_finding("R25.6", "wiring", gs, gs.node.lineno, "generate_sdmx does not return ast_to_sdmx(create_ast(script), ...) as it is"))
    # ---- R25.6: the script a TransformationScheme resolves to is a function of the scheme alone (shared with C17 R17.2) ----
    rep.rule("R25.6", "no function of the API layer that converts between scripts and TransformationSchemes writes a process-global: every generated scheme has the same id, "
                      "so anything cached per scheme id hands a later scheme the text of an earlier one")
    from sa import globalsx as _gx7
    _gx7.report_written_globals(P, rep, "R25.6", ("vtlengine.API", "vtlengine.AST.ASTString"), "the script run for a scheme then depends on the schemes converted before it", floor=0)
    rep.assumptions = ["pysdmx's Transformation / Ruleset / UserDefinedOperator store the given texts unchanged", "ANTLR naming convention between grammar labels and constructor methods"]
