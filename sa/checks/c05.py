"""C05 - set operators match datapoints by identifiers across all operands (DESIGN §3 C05).

R05.1 every operand is consumed: the operand loop of _visit_set_operation appends exactly one SQL per child on every path, and
      for the grammar's variadic operators (union, intersect: `(COMMA expr)+`) the returned SQL depends on the WHOLE operand
      list, not on a fixed set of constant subscripts; binary operators (setdiff, symdiff) read operands 0 and 1
R05.2 the branches combine operands positionally only after projecting them by NAME: every SELECT list that feeds a
      UNION ALL is an explicit, name-based column list (no `x.*`); a conditional skip of the projection must use an
      order-sensitive comparison
R05.3 operands that are already queries (SELECT / WITH / parenthesised) are not re-quoted as table names
R05.4 matching is by identifiers only: the join/partition keys of every branch come from get_identifiers_names()
R05.5 union's first-occurrence selection = order lint instance (see C15; exemption recorded there)
Not decided: that SEMI/ANTI JOIN on identifier columns yields the VTL result (DuckDB semantics).
"""
from __future__ import annotations

import ast
import re
from typing import Dict, List, Optional, Set, Tuple

from sa import orderlint, registryx, sqlx, transp
from sa.cfg import CFG, describe_path
from sa.checks.c15 import report_issues
from sa.core import AnalysisError, Finding, Program, Report, dotted, program, src, walk_no_nested

TR = "vtlengine.duckdb_transpiler.Transpiler.SQLTranspiler"


def grammar_arity(P: Program) -> Dict[str, str]:
    g = (P.root / "AST" / "Grammar" / "Vtl.g4")
    if not g.exists():
        raise AnalysisError("anchor vanished: Vtl.g4")
    out: Dict[str, str] = {}
    for line in g.read_text().splitlines():
        m = re.search(r"(?:op=\()?((?:UNION|INTERSECT|SETDIFF|SYMDIFF)(?:\|(?:UNION|INTERSECT|SETDIFF|SYMDIFF))*)\)?\s+LPAREN(.*)RPAREN", line)
        if m:
            variadic = bool(re.search(r"\(COMMA\s+\w+\)[+*]", m.group(2)))
            for tok in m.group(1).split("|"):
                out[tok] = "variadic" if variadic else "binary"
    if set(out) != {"UNION", "INTERSECT", "SETDIFF", "SYMDIFF"}:
        raise AnalysisError(f"Vtl.g4: set operator alternatives not found ({out})")
    return out


def run(rep: Report, tier: str) -> None:
    P = program()
    rep.explanation = ("Arity of the four set operators is read from Vtl.g4; _visit_set_operation is analysed with a CFG (one SQL per "
                       "operand on every path), def-use over the operand list per operator branch, and a scan of the SQL skeletons each "
                       "branch returns (explicit name-based projections before UNION ALL, identifier-based keys).")
    for rid, text in [("R05.1", "every operand consumed (one SQL per child; variadic branches depend on the whole list)"),
                      ("R05.2", "positional combination (UNION ALL) only over explicit name-based projections"),
                      ("R05.3", "query-shaped operands are not re-quoted as table names"),
                      ("R05.4", "join / partition keys are the identifiers"),
                      ("R05.5", "union first-occurrence selection (order lint instance)")]:
        rep.rule(rid, text)
    arity = grammar_arity(P)
    f = P.func(f"{TR}._visit_set_operation")
    g = CFG(f.node)
    # ---- operand loop ------------------------------------------------------------------------------------
    loops = [n for n in g.nodes if n.kind == "loop" and isinstance(n.stmt, ast.For) and src(n.stmt.iter) == "node.children"]
    if len(loops) != 1:
        raise AnalysisError("_visit_set_operation: `for child in node.children` loop not found")
    H = loops[0]
    body_ids = {id(x) for st in H.stmt.body for x in ast.walk(st)}
    appends = [n for n in g.nodes if n.stmt is not None and id(n.stmt) in body_ids and n.kind == "stmt"
               and any(isinstance(c.func, ast.Attribute) and c.func.attr == "append" and isinstance(c.func.value, ast.Name) for c in g.calls_at(n))]
    if not appends:
        raise AnalysisError("_visit_set_operation: operand list append not found")
    lst = [c.func.value.id for c in g.calls_at(appends[0]) if isinstance(c.func, ast.Attribute) and c.func.attr == "append"][0]
    entry = [t for t in g.norm_succ[H] if t.stmt is not None and id(t.stmt) in body_ids]
    rep.instance("R05.1", "one-sql-per-operand", nontrivial=True, sample={"operand_list": lst, "append_sites": [a.lineno for a in appends]})
    for s in entry:
        p = None if s in appends else g.path_avoiding(s, lambda n: n is H, lambda n: n in appends, follow_exc=False)
        if p is not None:
            rep.add(Finding("R05.1", "R05.1/one-sql-per-operand", f.module.rel, p[-2].lineno if len(p) > 1 else H.lineno, f.qualname,
                            f"a path through the operand loop adds nothing to `{lst}` for a child: that operand is silently ignored "
                            f"(and operand positions shift)", describe_path(p)))
    # ---- per-operator branches -----------------------------------------------------------------------------
    # map: token -> list of Return nodes that are reachable only when op == token
    returns: Dict[str, List[ast.Return]] = {}
    def branch_token(test: ast.AST) -> Optional[str]:
        if isinstance(test, ast.Compare) and len(test.ops) == 1 and isinstance(test.ops[0], ast.Eq) and src(test.left) == "op":
            return src(test.comparators[0]).split(".")[-1]
        return None
    for n in ast.walk(f.node):
        if isinstance(n, ast.If):
            tok = branch_token(n.test)
            if tok:
                for st in n.body:
                    for r in ast.walk(st):
                        if isinstance(r, ast.Return):
                            returns.setdefault(tok, []).append(r)
    for tok in arity:
        if tok not in returns:
            raise AnalysisError(f"_visit_set_operation: no `if op == tokens.{tok}` branch with a return found")
    # local definitions (flow-insensitive, per function)
    defs: Dict[str, List[ast.AST]] = {}
    for n in walk_no_nested(f.node):
        if isinstance(n, ast.Assign):
            for t in n.targets:
                if isinstance(t, ast.Name):
                    defs.setdefault(t.id, []).append(n.value)
        if isinstance(n, ast.For) and isinstance(n.target, ast.Name):
            defs.setdefault(n.target.id, []).append(n.iter)

    def operand_use(e: ast.AST, seen: Set[str]) -> Tuple[bool, Set[int], bool]:
        """(uses whole list, constant subscripts used, uses slice/iteration of the list)"""
        whole, consts, sliced = False, set(), False
        for x in ast.walk(e):
            if isinstance(x, ast.Subscript) and isinstance(x.value, ast.Name) and x.value.id == lst:
                if isinstance(x.slice, ast.Constant) and isinstance(x.slice.value, int):
                    consts.add(x.slice.value)
                else:
                    sliced = True
            elif isinstance(x, ast.Name) and x.id == lst:
                par = getattr(x, "_parent", None)
                if not (isinstance(par, ast.Subscript) and par.value is x):
                    whole = True
            elif isinstance(x, ast.Name) and x.id in defs and x.id not in seen and x.id not in ("self", "node", "op"):
                seen.add(x.id)
                for d in defs[x.id]:
                    w, c, s_ = operand_use(d, seen)
                    whole, sliced = whole or w, sliced or s_
                    consts |= c
        return whole, consts, sliced

    for tok, rets in sorted(returns.items()):
        if tok not in arity:
            continue
        for r in rets:
            whole, consts, sliced = operand_use(r.value, set())
            key = f"{tok}/return@{r.lineno - f.node.lineno}"
            rep.instance("R05.1", f"operands/{tok}", nontrivial=True,
                         sample={"operator": tok, "grammar": arity[tok], "whole_list": whole, "constant_subscripts": sorted(consts), "slice_or_iteration": sliced})
            if arity[tok] == "variadic":
                if not whole and not (sliced and 0 in consts) and not (sliced and not consts):
                    rep.add(Finding("R05.1", f"R05.1/operands/{tok}", f.module.rel, r.lineno, f.qualname,
                                    f"{tok.lower()} takes 2..n operands in the grammar, but this branch builds its SQL from operands "
                                    f"{sorted(consts)} only: {tok.lower()}(a, b, c) ignores the remaining operands"))
            else:
                if not whole and consts and not {0, 1} <= consts:
                    rep.add(Finding("R05.1", f"R05.1/operands/{tok}", f.module.rel, r.lineno, f.qualname,
                                    f"binary {tok.lower()} reads operands {sorted(consts)}, expected both 0 and 1"))
    # the early exit for < 2 operands must not be reachable with >= 2 children: guard shape `len(child_sqls) < 2`
    for n in walk_no_nested(f.node):
        if isinstance(n, ast.If) and f"len({lst})" in src(n.test):
            rep.instance("R05.1", "short-list-guard", nontrivial=True, sample={"guard": src(n.test)})
            if not re.fullmatch(rf"len\({lst}\) < 2", src(n.test)):
                rep.add(Finding("R05.1", "R05.1/short-list-guard", f.module.rel, n.lineno, f.qualname,
                                f"guard `{src(n.test)}` returns a single operand unchanged for lists it should not"))

    # ---- R05.2 positional combination ------------------------------------------------------------------------
    nunion = 0
    for sk in sqlx.iter_skeletons(P):
        if sk.func is not f:
            continue
        if "UNION ALL" in sk.text.upper():
            nunion += 1
            parts = re.split(r"UNION ALL", sk.text, flags=re.I)
            for part in parts:
                mm = re.search(r"SELECT\s+(.*?)\s+FROM", part, re.I | re.S)
                rep.instance("R05.2", f"union-all-branch@{sk.line}", nontrivial=True, sample={"select_list": mm.group(1)[:60] if mm else None})
                if mm and re.search(r"(^|[\s,])(\w+\.)?\*", mm.group(1)):
                    rep.add(Finding("R05.2", f"R05.2/star-under-union-all/{mm.group(1)[:20]}", f.module.rel, sk.line, f.qualname,
                                    f"`SELECT {mm.group(1)[:30]} … UNION ALL …`: UNION ALL matches columns by position, so a `*` projection mixes "
                                    f"components when operands declare them in different orders"))
    # union branch: the list handed to registry.sql(op, *X) must be name-projected
    union_lists = [d for name, ds in defs.items() for d in ds if isinstance(d, ast.ListComp) and any(
        isinstance(x, ast.Name) and x.id == lst for x in ast.walk(d.generators[0].iter))]
    proj = [d for d in union_lists if "SELECT" in src(d.elt).upper()]
    rep.instance("R05.2", "union-projection", nontrivial=True, sample={"projection": src(proj[0])[:120] if proj else None})
    if not proj:
        rep.add(Finding("R05.2", "R05.2/union-projection", f.module.rel, f.node.lineno, f.qualname,
                        "union operands are not re-projected into one explicit column order before UNION ALL"))
    else:
        d = proj[0]
        conds: List[ast.AST] = list(d.generators[0].ifs)
        if isinstance(d.elt, ast.IfExp):
            conds.append(d.elt.test)
        for c in conds:
            verdict = order_sensitive(P, f, c)
            rep.instance("R05.2", "union-projection-condition", nontrivial=True, sample={"condition": src(c), "order_sensitive": verdict})
            if verdict is None:
                raise AnalysisError(f"union projection is conditional on `{src(c)}`, a form the rule cannot classify")
            if not verdict:
                rep.add(Finding("R05.2", "R05.2/union-projection-condition", f.module.rel, d.lineno, f.qualname,
                                f"the name-based projection of a union operand is skipped when `{src(c)}`, a comparison that ignores column "
                                f"ORDER (dict key views / sets compare as sets): UNION ALL then matches by position"))
        for sk in sqlx.iter_skeletons(P):
            if sk.func is f and sk.node in list(ast.walk(d)) and re.search(r"SELECT\s+\*", sk.text, re.I):
                rep.add(Finding("R05.2", "R05.2/union-projection-star", f.module.rel, sk.line, f.qualname, "union operands projected with SELECT *"))
    rep.floor("UNION ALL skeletons in set operations", nunion, 1)

    # ---- R05.3 operand wrapping ---------------------------------------------------------------------------------
    wraps = [n for n in ast.walk(H.stmt) if isinstance(n, ast.If) and "startswith" in src(n.test)]
    rep.instance("R05.3", "operand-wrapping", nontrivial=True, sample={"test": src(wraps[0].test) if wraps else None})
    if not wraps:
        raise AnalysisError("_visit_set_operation: operand wrapping test not found")
    prefixes = {x.value for x in ast.walk(wraps[0].test) if isinstance(x, ast.Constant) and isinstance(x.value, str)}
    if not {"SELECT", "WITH"} <= {p_.upper() for p_ in prefixes}:
        rep.add(Finding("R05.3", "R05.3/operand-wrapping", f.module.rel, wraps[0].lineno, f.qualname,
                        f"operands are treated as table names unless they start with {sorted(prefixes)}: a nested symdiff (WITH … SELECT) is "
                        f"quoted as an identifier → raw parser error"))

    # ---- R05.4 keys = identifiers -----------------------------------------------------------------------------
    # the key variables are whatever is handed to _join_on_clause as the key list (their names are irrelevant)
    key_vars = sorted({c_.args[0].id for c_ in ast.walk(f.node) if isinstance(c_, ast.Call) and isinstance(c_.func, ast.Attribute) and c_.func.attr == "_join_on_clause"
                       and c_.args and isinstance(c_.args[0], ast.Name)})
    if not key_vars:
        raise AnalysisError("_visit_set_operation: no _join_on_clause(<keys>, …) call found")
    key_defs = [d for name in key_vars for d in defs.get(name, [])]
    rep.instance("R05.4", "keys", nontrivial=True, sample={"definitions": [src(d)[:70] for d in key_defs]})
    def _is_ids(d: ast.AST, depth: int = 0) -> bool:
        if "get_identifiers_names()" in src(d):
            return True
        if isinstance(d, ast.IfExp):
            return _is_ids(d.body, depth) and _is_ids(d.orelse, depth)
        if isinstance(d, ast.Name) and depth < 3 and d.id in defs:
            return all(_is_ids(x, depth + 1) for x in defs[d.id])
        return False
    if not key_defs or not all(_is_ids(d) for d in key_defs):
        rep.add(Finding("R05.4", "R05.4/keys", f.module.rel, f.node.lineno, f.qualname,
                        f"set operation keys are not the identifiers: {[src(d)[:60] for d in key_defs]}"))
    for tok, rets in returns.items():
        for r in rets:
            txts = [s.text for s in sqlx.iter_skeletons(P) if s.func is f and s.node in list(ast.walk(r))]
            joined = " ".join(txts)
            if tok in ("INTERSECT", "SETDIFF", "SYMDIFF"):
                rep.instance("R05.4", f"join-kind/{tok}", nontrivial=True)
                want = {"INTERSECT": "SEMI JOIN", "SETDIFF": "ANTI JOIN", "SYMDIFF": "ANTI JOIN"}[tok]
                use = operand_use(r.value, set())
                all_txt = joined + " ".join(s.text for s in sqlx.iter_skeletons(P) if s.func is f and getattr(s.node, "lineno", 0) and
                                            any(s.node in list(ast.walk(dd)) for nm in use[0:0] for dd in []))
                body_txt = " ".join(s.text for s in sqlx.iter_skeletons(P) if s.func is f and _within_branch(s.node, tok, f))
                if want not in body_txt.upper():
                    rep.add(Finding("R05.4", f"R05.4/join-kind/{tok}", f.module.rel, r.lineno, f.qualname,
                                    f"{tok.lower()} is no longer expressed with {want} on the identifier columns"))

    # ---- R05.5 -------------------------------------------------------------------------------------------------
    issues, _ = orderlint.lint_program(P)
    report_issues(rep, "R05.5", [i for i in issues if i.where == f.qualname])
    rep.analysed = {"grammar_arity": arity, "cfg_nodes": len(g.nodes)}
    # ---- R05.6: set operators select whole datapoints and match on identifiers only ----
    rep.rule("R05.6", "no whole-row SQL set operator in the identifier-matching branches; no aggregation that rebuilds a row from several datapoints")
    for n in walk_no_nested(f.node):
        if isinstance(n, ast.If) and isinstance(n.test, ast.Compare) and src(n.test.left) == "op" and len(n.test.comparators) == 1:
            tok = src(n.test.comparators[0]).split(".")[-1]
            if tok not in ("INTERSECT", "SETDIFF", "SYMDIFF"):
                continue
            rep.instance("R05.6", f"branch/{tok}/no-row-set-operator", nontrivial=True)
            for c in ast.walk(ast.Module(body=n.body, type_ignores=[])):
                if isinstance(c, ast.Call) and src(c.func) == "registry.sql" and c.args and src(c.args[0]) in ("op", f"tokens.{tok}"):
                    rep.add(Finding("R05.6", f"R05.6/branch/{tok}/row-set-operator", f.module.rel, c.lineno, f.qualname,
                                    f"the {tok.lower()} branch combines operands with the SQL set operator from the registry (`{src(c)[:60]}`), which compares whole rows by position; "
                                    f"VTL matches datapoints on the identifiers only, so a key present in every operand with different measure values is lost"))
    AGGS = {"ARG_MIN", "ARG_MAX", "MIN_BY", "MAX_BY", "FIRST", "LAST", "ANY_VALUE", "MIN", "MAX", "SUM", "AVG", "LIST", "STRING_AGG"}
    nsk = 0
    for sk in sqlx.iter_skeletons(P):
        if sk.func is not f:
            continue
        nsk += 1
        toks = sqlx.tokenize(sk.text)
        for i_, t in enumerate(toks):
            grp = t.up == "GROUP" and i_ + 1 < len(toks) and toks[i_ + 1].up == "BY"
            agg = t.kind == "ident" and t.up in AGGS and i_ + 1 < len(toks) and toks[i_ + 1].text == "("
            if grp or agg:
                rep.add(Finding("R05.6", f"R05.6/aggregation/{t.up}", f.module.rel, sk.line, f.qualname,
                                f"a set-operator query uses `{t.text}{'(' if agg else ' BY'}`: aggregating per column builds a row out of several datapoints (and aggregates skip NULLs), "
                                f"whereas a set operator returns datapoints of its operands unchanged - e.g. union must return the FIRST operand's datapoint for a shared key, NULL measures included"))
    rep.instance("R05.6", "no-aggregation-in-set-queries", nontrivial=True, sample={"sql_texts": nsk})
    # ---- R05.8 semantic analysis of set operators pairs the components of its operands by NAME ----
    rep.rule("R05.8", "Set.validate: operands that declare the same components in another order are compatible; type and nullability of each result component come from the components of that NAME")
    _set_validate_by_name(P, rep)
    # ---- R05.7 n-ary union: every operand is de-duplicated against ALL operands before it ----
    rep.rule("R05.7", "union of n operands: a datapoint of operand k is dropped iff an EARLIER operand (any of them) has its identifiers - evaluated handler, recognised de-duplication forms")
    _union_dedup(P, rep)
    _intersect_every(P, rep)
    # ---- R05.10 set operators match Time_Period identifiers as text: one stored text per period ----
    rep.rule("R05.10", "every accepted spelling of a Time_Period is stored as the one canonical text (set operators match Time_Period identifiers as text)")
    from sa import sqlx as _sqlx_g
    from sa.checks.c19 import period_limits as _pl_g
    from sa.checks.c21 import spelling_grid as _sg_g
    _sg_g(rep, "R05.10", {k.lower(): v for k, v in _sqlx_g.load_macros(P).items()}, _pl_g(P))
    # ---- R05.11: an operand without datapoints is still an operand (shared with C19) ----
    rep.rule("R05.11", "register_dataframes creates the table of every dataset of the script on every path of its loop (only `name not in input_datasets` skips): union / intersect / "
                       "setdiff / symdiff over an operand given as an empty DataFrame work on an empty table")
    from sa.checks.c19 import every_dataframe_becomes_a_table as _edt
    _edt(P, rep, "R05.11")
    # ---- R05.12: a union used as an operand selects its operands' own columns ----
    rep.rule("R05.12", "union as the operand of a clause (statement output != union structure): the UNION branches project exactly the components of the operands")
    _union_as_operand(P, rep, "R05.12")
    # ---- R05.13: the two arms of symdiff's UNION ALL list the same columns in the same sequence ----
    rep.rule("R05.13", "symdiff over operands that declare the same components in another order: both arms of the UNION ALL (matched by position) select the same names in the "
                       "same sequence (evaluated handler)")
    _symdiff_arms(P, rep, "R05.13")
    rep.assumptions = ["operator arity as written in Vtl.g4", "UNION ALL matches columns by position (SQL)"]


def _within_branch(node: ast.AST, tok: str, f) -> bool:
    p = getattr(node, "_parent", None)
    while p is not None and p is not f.node:
        if isinstance(p, ast.If) and isinstance(p.test, ast.Compare) and src(p.test.left) == "op" and src(p.test.comparators[0]).endswith(tok):
            return True
        p = getattr(p, "_parent", None)
    return False


def order_sensitive(P: Program, f, cond: ast.AST) -> Optional[bool]:
    """Is the (in)equality `cond` sensitive to column ORDER?  True/False, None if unknown form.  Follows one call into a
    repo helper (its single return expression)."""
    c = cond
    if isinstance(c, ast.UnaryOp) and isinstance(c.op, ast.Not):
        c = c.operand
    if isinstance(c, ast.Call):
        for tq in P.resolve_call(f, c)[:2]:
            g = P.functions.get(tq)
            if g is not None:
                rets = [n.value for n in walk_no_nested(g.node) if isinstance(n, ast.Return) and n.value is not None]
                verdicts = [order_sensitive(P, g, r) for r in rets if not (isinstance(r, ast.Constant))]
                if verdicts and all(v is not None for v in verdicts):
                    return all(verdicts)
        return None
    if isinstance(c, ast.BoolOp):
        vs = [order_sensitive(P, f, v) for v in c.values]
        known = [v for v in vs if v is not None]
        return (all(known) if isinstance(c.op, ast.Or) else any(known)) if known else None
    if isinstance(c, ast.Compare) and len(c.ops) == 1 and isinstance(c.ops[0], (ast.Eq, ast.NotEq)):
        def kind(e: ast.AST) -> Optional[str]:
            if isinstance(e, ast.Call) and isinstance(e.func, ast.Name) and e.func.id in ("list", "tuple"):
                return "seq"
            if isinstance(e, ast.Call) and isinstance(e.func, ast.Name) and e.func.id in ("set", "frozenset", "sorted"):
                return "set"
            if isinstance(e, ast.Call) and isinstance(e.func, ast.Attribute) and e.func.attr in ("keys", "items"):
                return "set"
            if isinstance(e, (ast.List, ast.Tuple, ast.ListComp)):
                return "seq"
            if isinstance(e, (ast.Set, ast.SetComp)):
                return "set"
            return None
        ka, kb = kind(c.left), kind(c.comparators[0])
        if ka == "seq" and kb == "seq":
            return True
        if "set" in (ka, kb):
            return False
    return None


def _union_dedup(P: Program, rep: Report) -> None:
    """_visit_set_operation is evaluated (E6) for union(D1, D2, D3) over identifiers A, B.  Two ways of keeping the first occurrence per
    identifier group are recognised: (i) ONE window over the UNION ALL of ALL operands - ROW_NUMBER() partitioned by exactly the
    identifiers and ordered by the position in that UNION ALL; (ii) operand k (k >= 2) anti-joined / NOT EXISTS-filtered on the
    identifiers against EVERY operand j < k (or against the accumulated result of the operands before it).  Anything else is
    reported as not recognised (analysis error, never a silent pass)."""
    import re as _re
    from sa import structmodel as sm
    from sa.e6 import Interp, Raised, Unmodelled
    f = P.func(f"{sm.TRQ}._visit_set_operation")
    M = sm.Model(P)
    REG = registryx.extract(P)  # registry.sql is answered from the repository's own registrations (templates and generators lowered)
    ds = M.ds("D1", ["A", "B"], ["M"])
    kids = [sm.MNode("VarID", value=f"D{k}") for k in (1, 2, 3)]
    node = sm.MNode("MulOp", op="union", children=kids)
    ext = {"self.visit": lambda c: f'SELECT * FROM "{c.value}"', "self._get_dataset_structure": lambda c: ds, "self._get_output_dataset": lambda: None,
           "quote_name": lambda n: f'"{n}"', "registry.sql": lambda op, *a: registryx.registry_sql(REG, op, *a), "hasattr": lambda o, n: hasattr(o, n),
           "self._join_on_clause": lambda ids, a, b: " AND ".join(f'{a}."{i}" = {b}."{i}"' for i in ids)}
    try:
        txt = str(Interp(P, externals=ext).call(f, {"self": sm.MTranspiler(), "node": node, "op": "union"}))
    except (Unmodelled, Raised) as e:
        raise AnalysisError(f"R05.7: _visit_set_operation outside the evaluator's language: {e}")
    rep.instance("R05.7", "union/3-operands", sample={"sql": " ".join(txt.split())[:260]})
    flat = " ".join(txt.split())
    occ = {k: len(_re.findall(rf'FROM "D{k}"', flat)) for k in (1, 2, 3)}
    # form (i)
    win = _re.search(r"ROW_NUMBER\(\)\s+OVER\s*\(\s*PARTITION BY\s+(.*?)(?:\s+ORDER BY\s+(.*?))?\)\s*=\s*1", flat, _re.I)
    if win and "ANTI JOIN" not in flat.upper() and "NOT EXISTS" not in flat.upper():
        part = sorted(x.strip().strip('"') for x in win.group(1).split(","))
        if part != ["A", "B"]:
            rep.add(transp.fnd("R05.7", "union/partition", f, f.node.lineno, f"union keeps one datapoint per group of {part}; the groups must be the identifiers ['A', 'B']"))
        if any(v != 1 for v in occ.values()):
            rep.add(transp.fnd("R05.7", "union/operands-in-window", f, f.node.lineno, f"the de-duplicating window does not range over each operand exactly once (occurrences {occ})"))
        if not win.group(2):
            rep.add(transp.fnd("R05.7", "union/order", f, f.node.lineno, "the first-occurrence window has no ORDER BY: which operand's datapoint survives is left to the engine"))
        return
    # form (ii)
    parts = [p_ for p_ in _re.split(r"\)\s*UNION ALL\s*\(", flat)]
    if len(parts) == 3 and ("ANTI JOIN" in flat.upper() or "NOT EXISTS" in flat.upper()):
        for k in (2, 3):
            seg = parts[k - 1]
            missing = [j for j in range(1, k) if f'"D{j}"' not in seg.split(f'"D{k}"', 1)[-1]]
            rep.instance("R05.7", f"union/anti-join/operand-{k}", sample={"segment": seg[:160]})
            if missing:
                rep.add(transp.fnd("R05.7", f"union/anti-join/operand-{k}", f, f.node.lineno,
                                   f"union(D1, D2, D3): the datapoints of D{k} are only filtered against {[f'D{j}' for j in range(1, k) if j not in missing]}, not against {[f'D{j}' for j in missing]}: "
                                   f"an identifier combination that D{missing[0]} and D{k} share (and D1 lacks) is returned twice, with conflicting measures"))
        return
    if rep.findings:
        rep.note("R05.7: the de-duplication form of the union branch is not one of the recognised forms; not decided (other rules already report this tree)")
        return
    raise AnalysisError("R05.7: the de-duplication form of the union branch is not one of the recognised forms (window over the UNION ALL of all operands; anti-join against all earlier operands)")


def _intersect_every(P: Program, rep: Report) -> None:
    """intersect(D1, D2, D3) keeps the datapoints of D1 whose identifiers are in EVERY other operand: evaluated handler; recognised form:
    a chain of SEMI JOINs (or EXISTS / IN filters), one per further operand, each against that operand alone, ON the identifiers.
    setdiff(D1, D2): one ANTI JOIN of D1 against D2 on the identifiers."""
    import re as _re
    from sa import structmodel as sm
    from sa.e6 import Interp, Raised, Unmodelled
    f = P.func(f"{sm.TRQ}._visit_set_operation")
    M = sm.Model(P)
    REG = registryx.extract(P)
    ds = M.ds("D1", ["A", "B"], ["M"])

    def run_op(op: str, n: int) -> str:
        kids = [sm.MNode("VarID", value=f"D{k}") for k in range(1, n + 1)]
        ext = {"self.visit": lambda c: f'SELECT * FROM "{c.value}"', "self._get_dataset_structure": lambda c: ds, "self._get_output_dataset": lambda: None,
               "quote_name": lambda x: f'"{x}"', "registry.sql": lambda o, *a: registryx.registry_sql(REG, o, *a), "hasattr": lambda o, x: hasattr(o, x),
               "self._join_on_clause": lambda ids, a, b: "⟦ON " + ",".join(ids) + "⟧", "CTEBuilder": lambda: None}
        try:
            return " ".join(str(Interp(P, externals=ext).call(f, {"self": sm.MTranspiler(), "node": sm.MNode("MulOp", op=op, children=kids), "op": op})).split())
        except (Unmodelled, Raised) as e:
            raise AnalysisError(f"R05.7: _visit_set_operation({op}) outside the evaluator's language: {e}")
    txt = run_op("intersect", 3)
    rep.instance("R05.7", "intersect/3-operands", sample={"sql": txt[:260]})
    semis = [(m.start(), m.group(0)) for m in _re.finditer(r"SEMI JOIN \((.*?)\) AS \w+ ON ⟦ON ([^⟧]*)⟧", txt)]
    per_operand = {k: sum(1 for _p, g in semis if f'"D{k}"' in g and not any(f'"D{j}"' in g for j in (1, 2, 3) if j != k)) for k in (2, 3)}
    keys_ok = all(_re.search(r"⟦ON A,B⟧", g) for _p, g in semis)
    if not semis or any(v != 1 for v in per_operand.values()) or not keys_ok:
        rep.add(transp.fnd("R05.7", "intersect/every-operand", f, f.node.lineno,
                           f"intersect(D1, D2, D3) is written `{txt[:200]}`: each further operand must filter D1 on its own (one SEMI JOIN per operand, on the identifiers A, B); "
                           f"found {per_operand} single-operand semi-joins - a key present in only SOME of the other operands must not survive"))
    txt2 = run_op("setdiff", 2)
    rep.instance("R05.7", "setdiff/2-operands", sample={"sql": txt2[:200]})
    if not _re.search(r'FROM \(SELECT \* FROM "D1"\) AS \w+ ANTI JOIN \(SELECT \* FROM "D2"\) AS \w+ ON ⟦ON A,B⟧', txt2):
        rep.add(transp.fnd("R05.7", "setdiff/anti-join", f, f.node.lineno, f"setdiff(D1, D2) is written `{txt2[:200]}`: expected D1 ANTI JOIN D2 on the identifiers A, B"))


def _set_validate_by_name(P: Program, rep: Report) -> None:
    from sa import structmodel as sm
    from sa.e6 import ClassVal, Interp, Raised, Unmodelled
    M = sm.Model(P)
    f = P.func("vtlengine.Operators.Set.Set.validate")
    T = {n: ClassVal(f"vtlengine.DataTypes.{n}") for n in ("Integer", "Number", "String", "Boolean")}

    def mk(name: str, order: List[str], nullable: Dict[str, bool]) -> sm.MDS:
        spec = {"A": ("IDENTIFIER", "Integer"), "B": ("IDENTIFIER", "String"), "M": ("MEASURE", "Number"), "S": ("MEASURE", "String")}
        comps = {n: sm.MComp(n, M.roles[spec[n][0]], T[spec[n][1]], nullable.get(n, spec[n][0] != "IDENTIFIER")) for n in order}
        return sm.MDS(name, comps, M.roles)
    for cls in ("Union", "Intersection", "Setdiff", "Symdiff"):
        if f"vtlengine.Operators.Set.{cls}" not in P.classes:
            continue
        d1 = mk("DS_1", ["A", "B", "M", "S"], {"M": False, "S": True})
        d2 = mk("DS_2", ["B", "A", "S", "M"], {"M": True, "S": False})
        try:
            r = Interp(P, externals={"Dataset": M.mk_dataset, "isinstance": sm._isinstance}, max_steps=400000).call(
                f, {"operands": [d1, d2]}, bound_cls=ClassVal(f"vtlengine.Operators.Set.{cls}"))
            got = {n: (c.data_type.short if isinstance(c.data_type, ClassVal) else str(c.data_type), c.nullable) for n, c in r.components.items()}
            verdict = ("ok", got)
        except Raised as e:
            verdict = ("raise", getattr(e.exc, "code", None) or getattr(e.exc, "kind", None))
        except Unmodelled as e:
            raise AnalysisError(f"R05.8: Set.validate outside the evaluator's language: {e}")
        rep.instance("R05.8", f"by-name/{cls}", nontrivial=True, sample={"result": verdict})
        want = {"A": ("Integer", False), "B": ("String", False), "M": ("Number", True), "S": ("String", True)}
        if verdict[0] != "ok" or verdict[1] != want:
            rep.add(transp.fnd("R05.8", f"by-name/{cls}", f, f.node.lineno,
                               f"{cls.lower()}(DS_1[A, B, M, S], DS_2[B, A, S, M]) - the same components declared in another order: semantic analysis gives {verdict[1]}; "
                               f"expected acceptance with {want} (each component typed and made nullable from the components of the same NAME in the operands)"))


def _union_as_operand(P: Program, rep: Report, rule: str) -> None:
    """_visit_set_operation evaluated for union(D1, D2) used as the OPERAND of a clause that renames / drops / adds components (the statement's
    output structure then differs from the union's own): every column the generated SQL selects from an operand is a component of the
    operands, and all their components are selected."""
    import re as _re
    from sa import structmodel as sm
    from sa.e6 import Interp, Raised, Unmodelled
    f = P.func(f"{sm.TRQ}._visit_set_operation")
    M = sm.Model(P)
    REG = registryx.extract(P)
    ds = M.ds("D1", ["A", "B"], ["M", "N"])
    n = 0
    for label, out in (("renamed-measure", M.ds("R", ["A", "B"], ["M_X", "N"])), ("dropped-measure", M.ds("R", ["A", "B"], ["N"])), ("added-measure", M.ds("R", ["A", "B"], ["M", "N", "K"])),
                       ("whole-statement", M.ds("R", ["B", "A"], ["N", "M"]))):
        for op in ("union",):
            node = sm.MNode("MulOp", op=op, children=[sm.MNode("VarID", value="D1"), sm.MNode("VarID", value="D2")])
            ext = {"self.visit": lambda c: f'SELECT * FROM "{c.value}"', "self._get_dataset_structure": lambda c: ds, "self._get_output_dataset": lambda out=out: out,
                   "quote_name": lambda x: f'"{x}"', "registry.sql": lambda o, *a: registryx.registry_sql(REG, o, *a), "hasattr": lambda o, x: hasattr(o, x),
                   "self._join_on_clause": lambda ids, a, b: " AND ".join(f'{a}."{i}" = {b}."{i}"' for i in ids)}
            try:
                txt = " ".join(str(Interp(P, externals=ext).call(f, {"self": sm.MTranspiler(), "node": node, "op": op})).split())
            except (Unmodelled, Raised) as e:
                raise AnalysisError(f"{rule}: _visit_set_operation outside the evaluator's language: {e}")
            n += 1
            # the projections applied directly to an operand: SELECT <cols> FROM (SELECT * FROM "Dk") ...
            projs = _re.findall(r'SELECT ((?:"[^"]+"(?:, )?)+) FROM \(SELECT \* FROM "D[12]"\)', txt)
            rep.instance(rule, f"union-as-operand/{label}", nontrivial=True, sample={"statement_output": sorted(out.components), "operand_projections": projs[:2]})
            for pr in projs:
                cols = _re.findall(r'"([^"]+)"', pr)
                if set(cols) != set(ds.components):
                    rep.add(transp.fnd(rule, f"union-as-operand/{label}", f, f.node.lineno,
                                       f"union(D1, D2) inside a statement whose result has the components {sorted(out.components)}: the branches select {cols} from operands that have "
                                       f"{sorted(ds.components)} - a column of the statement's output that no operand has (after a rename / calc) ends in a raw BinderException, a dropped one "
                                       f"is lost before the clause that uses it"))
                    break
    rep.floor(f"{rule} union-as-operand shapes", n, 4)


def _symdiff_arms(P: Program, rep: Report, rule: str) -> None:
    """_visit_set_operation evaluated for symdiff(D1, D2) where D2 declares the same components in another order: the two arms of the UNION ALL
    (matched by POSITION) must list the same component names in the same sequence, or say BY NAME."""
    import re as _re
    from sa import structmodel as sm
    from sa.e6 import Interp, Raised, Unmodelled
    f = P.func(f"{sm.TRQ}._visit_set_operation")
    M = sm.Model(P)
    REG = registryx.extract(P)
    d1 = M.ds("D1", ["A", "B"], ["M", "N"])
    n = 0
    for label, d2 in (("same-order", M.ds("D2", ["A", "B"], ["M", "N"])), ("measures-swapped", M.ds("D2", ["A", "B"], ["N", "M"])), ("identifiers-swapped", M.ds("D2", ["B", "A"], ["M", "N"]))):
        node = sm.MNode("MulOp", op="symdiff", children=[sm.MNode("VarID", value="D1"), sm.MNode("VarID", value="D2")])
        ext = {"self.visit": lambda c: f'SELECT * FROM "{c.value}"', "self._get_dataset_structure": lambda c, d2=d2: d1 if getattr(c, "value", None) == "D1" else d2,
               "self._get_output_dataset": lambda: d1, "quote_name": lambda x: f'"{x}"', "registry.sql": lambda o, *a: registryx.registry_sql(REG, o, *a),
               "hasattr": lambda o, x: hasattr(o, x), "self._join_on_clause": lambda ids, a, b: " AND ".join(f'{a}."{i}" = {b}."{i}"' for i in ids),
               # the CTE builder only wraps the final SELECT in WITH ...: modelled as the identity on the final SELECT
               "CTEBuilder": lambda: "CTEBuilder()"}
        # (the local names the handler gives its builder are read from the handler, not assumed)
        for a_ in ast.walk(f.node):
            if isinstance(a_, ast.Assign) and isinstance(a_.value, ast.Call) and (dotted(a_.value.func) or "").split(".")[-1] == "CTEBuilder":
                for t_ in a_.targets:
                    if isinstance(t_, ast.Name):
                        ext[f"{t_.id}.cte"] = lambda *a, **k: None
                        ext[f"{t_.id}.select"] = lambda q: q
        try:
            txt = " ".join(str(Interp(P, externals=ext).call(f, {"self": sm.MTranspiler(), "node": node, "op": "symdiff"})).split())
        except (Unmodelled, Raised) as e:
            raise AnalysisError(f"{rule}: _visit_set_operation(symdiff) outside the evaluator's language: {e}")
        n += 1
        by_name = bool(_re.search(r"UNION\s+(ALL\s+)?BY\s+NAME", txt, _re.I))
        arms = [_re.findall(r'"([^"]+)"', a) for a in _re.findall(r'SELECT ((?:\w+\."[^"]+"(?:, )?)+) FROM', txt)]
        rep.instance(rule, f"symdiff-arms/{label}", nontrivial=True, sample={"arms": arms, "by_name": by_name})
        if by_name:
            continue
        if len(arms) < 2:
            raise AnalysisError(f"{rule}: the symdiff SQL no longer has two explicit projections joined by UNION ALL (form not recognised): {txt[:200]}")
        if any(a != arms[0] for a in arms[1:]):
            rep.add(transp.fnd(rule, f"symdiff-arms/{label}", f, f.node.lineno,
                               f"symdiff(D1, D2), D2 declaring its components as {list(d2.components)}: the UNION ALL arms select {arms} - UNION ALL matches by position, so the "
                               f"datapoints that come from the second operand get their values under the wrong component names"))
        elif set(arms[0]) != set(d1.components):
            rep.add(transp.fnd(rule, f"symdiff-arms/{label}", f, f.node.lineno, f"symdiff(D1, D2): the arms select {arms[0]}, the operands have {sorted(d1.components)}"))
    rep.floor(f"{rule} symdiff shapes", n, 3)
