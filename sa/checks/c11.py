"""C11 - semantic type rules follow the documented implicit-cast table (DESIGN §2 C11).

R11.1 IMPLICIT_TYPE_PROMOTION_MAPPING == docs "Implicit Casting" list-table (+ Null row/column total)
R11.2 check_* is true  ⇔  the promotion function returns (finite decision tables, all cells)
R11.3 commutativity of binary_implicit_promotion (accept set and result type)
R11.4 accepted ⇔ a documented common type admitted by type_to_check exists; result ∈ documented set
R11.5 the same for every distinct (type_to_check, return_type) declared by an operator class; the generic
      Binary/Unary validation methods reach a promotion function on every path (must-pass-through, CFG),
      overrides of those methods are an explicit reasoned table
R11.6 the four promotion functions are pure (no mutable process state between calls, no mutation of the tables)
"""
from __future__ import annotations

import ast
from typing import Any, Dict, List, Optional, Set, Tuple

from sa import rst
from sa.core import AnalysisError, Finding, Program, Report, program, src, walk_no_nested
from sa.e6 import ClassVal, Interp, Raised, Unmodelled

DT = "vtlengine.DataTypes"
DOC_NAMES = {"String": "String", "Number": "Number", "Integer": "Integer", "Boolean": "Boolean",
             "Time": "TimeInterval", "Date": "Date", "Time_Period": "TimePeriod", "Duration": "Duration"}


def type_domain(P: Program) -> Tuple[List[ClassVal], Dict[str, ClassVal]]:
    """The scalar type classes, read from SCALAR_TYPES (name -> class)."""
    m = P.module(DT)
    node = m.assigns.get("SCALAR_TYPES")
    if not isinstance(node, ast.Dict):
        raise AnalysisError("anchor vanished: SCALAR_TYPES dict literal")
    by_name: Dict[str, ClassVal] = {}
    for k, v in zip(node.keys, node.values):
        if not (isinstance(k, ast.Constant) and isinstance(v, ast.Name) and v.id in m.classes):
            raise AnalysisError("SCALAR_TYPES entry not of the form 'Name': Class")
        by_name[k.value] = ClassVal(m.classes[v.id].qualname)
    return list(by_name.values()), by_name


def read_table(P: Program, name: str) -> Dict[ClassVal, Set[ClassVal]]:
    m = P.module(DT)
    if name not in m.assigns:
        raise AnalysisError(f"anchor vanished: {name}")
    it = Interp(P)
    tab = it.module_name(m, name, P.func(f"{DT}.binary_implicit_promotion"))
    if not isinstance(tab, dict) or not all(isinstance(k, ClassVal) and isinstance(v, set) for k, v in tab.items()):
        raise AnalysisError(f"{name} is not a {{Class: {{Class,…}}}} literal")
    return tab


def docs_matrix(P: Program, section: str) -> Dict[str, Set[str]]:
    tabs = rst.tables(P.repo / "docs" / "data_types.rst")
    t = rst.find(tabs, section, header_first="From / To")
    cols = t.header[1:]
    out: Dict[str, Set[str]] = {}
    for r in t.rows[1:]:
        if len(r) != len(cols) + 1:
            raise AnalysisError(f"docs table {section!r}: row {r[0]!r} has {len(r) - 1} cells, expected {len(cols)}")
        out[r[0]] = {c for c, cell in zip(cols, r[1:]) if cell == "|y|"}
        for cell in r[1:]:
            if cell not in ("|y|", "—", "|p|"):
                raise AnalysisError(f"docs table {section!r}: unknown cell {cell!r}")
    return out


def outcome(P: Program, fname: str, args: Dict[str, Any]) -> Tuple[str, Any]:
    it = Interp(P)
    try:
        v = it.call(P.func(f"{DT}.{fname}"), dict(args))
        return "ret", v
    except Raised as r:
        return "raise", getattr(r.exc, "code", None) or getattr(r.exc, "kind", "?")


def run(rep: Report, tier: str) -> None:
    P = program()
    rep.explanation = ("The implicit promotion table is read from the AST and compared with the docs list-table; the four "
                       "promotion functions are lowered to decision tables (restricted language, class hierarchy from the "
                       "source) and evaluated over all 9×9×(type_to_check)×(return_type) cells; operator classes' declared "
                       "type_to_check/return_type are read through the MRO.")
    rep.rule("R11.6", "promotion functions are pure: no module state written, tables not mutated, no memo keyed on fewer than all arguments")
    rep.rule("R11.1", "code implicit table == docs implicit table; Null row/column total")
    rep.rule("R11.2", "check_*_implicit_promotion is true iff *_implicit_promotion returns")
    rep.rule("R11.3", "binary promotion is commutative (acceptance and result type)")
    rep.rule("R11.4", "accept iff documented common type admitted by type_to_check; result in documented common set")
    rep.rule("R11.5", "operator-declared (type_to_check, return_type) pairs obey R11.2-4; generic validation methods must pass through a promotion function")
    types, by_name = type_domain(P)
    rev = {v: k for k, v in by_name.items()}
    null = by_name.get("Null")
    if null is None or len(types) != 9:
        raise AnalysisError(f"expected 9 scalar types incl. Null, got {sorted(by_name)}")
    impl = read_table(P, "IMPLICIT_TYPE_PROMOTION_MAPPING")
    file = "src/vtlengine/DataTypes/__init__.py"

    # ---- R11.1 ---------------------------------------------------------------------------
    doc = docs_matrix(P, "Implicit Casting")
    doc_rel: Dict[ClassVal, Set[ClassVal]] = {}
    for frm, tos in doc.items():
        if frm not in DOC_NAMES:
            raise AnalysisError(f"docs implicit table: unknown type {frm}")
        doc_rel[ClassVal(f"{DT}.{DOC_NAMES[frm]}")] = {ClassVal(f"{DT}.{DOC_NAMES[t]}") for t in tos}
    if set(doc_rel) != set(types) - {null}:
        raise AnalysisError("docs implicit table does not have one row per non-Null type")
    for a in types:
        for b in types:
            in_code = b in impl.get(a, set())
            if a == null:
                want = True  # "Null to any type"
            elif b == null:
                want = False
            else:
                want = b in doc_rel[a]
            key = f"{rev[a]}->{rev[b]}"
            rep.instance("R11.1", key, nontrivial=True, sample={"from": rev[a], "to": rev[b], "code": in_code, "docs": want}
                         if in_code else None)
            if in_code != want:
                rep.add(Finding("R11.1", f"R11.1/{key}", file, P.module(DT).assigns["IMPLICIT_TYPE_PROMOTION_MAPPING"].lineno,
                                "IMPLICIT_TYPE_PROMOTION_MAPPING",
                                f"implicit promotion {key}: code says {in_code}, docs/data_types.rst says {want}"))
    doc_full = {a: (set(types) if a == null else set(doc_rel[a])) for a in types}

    # ---- operator-declared pairs (R11.5 domain) ------------------------------------------------
    pairs: Dict[Tuple[Optional[ClassVal], Optional[ClassVal]], List[str]] = {}
    op_base = P.cls("vtlengine.Operators.Operator")
    ncls = 0
    for c in [op_base] + P.subclasses(op_base.qualname):
        def attr(name: str) -> Optional[ClassVal]:
            got = P.lookup_attr(c, name)
            if got is None:
                return None
            node = got[1]
            if isinstance(node, ast.Constant) and node.value is None:
                return None
            q = P.resolve_expr(got[0].module, node)
            if q is None or q not in P.classes:
                raise AnalysisError(f"{c.qualname}.{name} = {src(node)} is not a scalar type class")
            return ClassVal(q)
        ncls += 1
        pairs.setdefault((attr("type_to_check"), attr("return_type")), []).append(c.name)
    rep.floor("operator classes", ncls, 80)
    ttc_values: List[Optional[ClassVal]] = [None] + types
    rt_values: List[Optional[ClassVal]] = [None, by_name["Boolean"], by_name["Integer"]]
    for (ttc, rt) in pairs:
        if rt not in rt_values:
            rt_values.append(rt)

    # commutative operators: the classes bound to these tokens in BINARY_MAPPING
    commutative_pairs: Dict[Tuple[Optional[ClassVal], Optional[ClassVal]], List[str]] = {}
    um = P.module("vtlengine.Utils")
    bm = um.assigns.get("BINARY_MAPPING")
    if not isinstance(bm, ast.Dict):
        raise AnalysisError("anchor vanished: Utils.BINARY_MAPPING")
    for k, v in zip(bm.keys, bm.values):
        if isinstance(k, ast.Name) and k.id in COMMUTATIVE_TOKENS:
            q = P.resolve_expr(um, v)
            if q not in P.classes:
                raise AnalysisError(f"BINARY_MAPPING[{k.id}] does not resolve to a class")
            c = P.classes[q]
            def attr2(name: str) -> Optional[ClassVal]:
                got = P.lookup_attr(c, name)
                if got is None or (isinstance(got[1], ast.Constant) and got[1].value is None):
                    return None
                return ClassVal(P.resolve_expr(got[0].module, got[1]))  # type: ignore[arg-type]
            commutative_pairs.setdefault((attr2("type_to_check"), attr2("return_type")), []).append(c.name)
    if len([x for v in commutative_pairs.values() for x in v]) < len(COMMUTATIVE_TOKENS):
        raise AnalysisError("commutative operator tokens missing from BINARY_MAPPING")
    noncomm_info: Set[str] = set()

    def common_doc(a: ClassVal, b: ClassVal) -> Set[ClassVal]:
        return doc_full[a] & doc_full[b]

    # ---- R11.2-4 binary ------------------------------------------------------------------------
    ncell = 0
    for ttc in ttc_values:
        for rt in rt_values:
            declared = (ttc, rt) in pairs
            rid_suffix = f"ttc={rev.get(ttc)}/rt={rev.get(rt)}"
            for a in types:
                for b in types:
                    args = {"left_type": a, "right_type": b, "type_to_check": ttc, "return_type": rt}
                    k1, v1 = outcome(P, "binary_implicit_promotion", args)
                    k2, v2 = outcome(P, "binary_implicit_promotion", {**args, "left_type": b, "right_type": a})
                    kc, vc = outcome(P, "check_binary_implicit_promotion",
                                     {"left": a, "right": b, "type_to_check": ttc, "return_type": rt})
                    ncell += 1
                    cell = f"{rev[a]},{rev[b]}/{rid_suffix}"
                    cd = common_doc(a, b)
                    want_accept = (ttc in cd) if ttc is not None else bool(cd)
                    nontriv = a != b and a != null and b != null
                    rep.instance("R11.2", "binary/" + cell, nontrivial=nontriv,
                                 sample={"cell": cell, "promotion": [k1, str(v1)], "check": [kc, str(vc)]} if nontriv and k1 == "ret" else None)
                    where = "R11.5" if declared and (ttc, rt) != (None, None) else None
                    ops = ",".join(pairs.get((ttc, rt), [])[:4])

                    def add(rule: str, msg: str, fn: str) -> None:
                        f = P.func(f"{DT}.{fn}")
                        rep.add(Finding(rule, f"{rule}/{fn}/{cell}", file, f.node.lineno, f.qualname,
                                        msg + (f" [declared by operator class(es) {ops}]" if declared else "")))
                        if where:
                            rep.rules[where]["violations"] += 0
                    if kc != "ret" or not isinstance(vc, bool):
                        add("R11.2", f"check_binary_implicit_promotion({cell}) does not return a bool: {kc} {vc}",
                            "check_binary_implicit_promotion")
                        continue
                    if (k1 == "ret") != vc:
                        add("R11.2", f"check says {vc} but binary_implicit_promotion {'returns ' + str(v1) if k1 == 'ret' else 'raises ' + str(v1)} for {cell}",
                            "binary_implicit_promotion")
                    if (ttc, rt) in commutative_pairs:
                        rep.instance("R11.3", "binary/" + cell, nontrivial=nontriv)
                        if (k1, v1) != (k2, v2):
                            add("R11.3", f"not commutative for {cell}: ({rev[a]},{rev[b]}) → {k1} {v1}, swapped → {k2} {v2} "
                                f"[commutative operator(s): {','.join(commutative_pairs[(ttc, rt)])}]", "binary_implicit_promotion")
                    elif ttc is None and rt is None:
                        # the untyped promotion (if-then-else, case, nvl ... call it with two types only) computes THE common type of two types: symmetric by definition
                        rep.instance("R11.3", "binary-untyped/" + cell, nontrivial=nontriv)
                        if (k1, v1) != (k2, v2):
                            add("R11.3", f"untyped promotion is not symmetric for {cell}: ({rev[a]},{rev[b]}) → {k1} {v1}, swapped → {k2} {v2}: the declared type of "
                                f"`if c then <{rev[a]}> else <{rev[b]}>` depends on the order of the branches (an Integer result carrying 3.5)", "binary_implicit_promotion")
                    elif (k1, v1) != (k2, v2) and (ttc, rt) in pairs:
                        noncomm_info.add(f"{cell}: {k1} {v1} vs swapped {k2} {v2}")
                    rep.instance("R11.4", "binary/" + cell, nontrivial=nontriv)
                    if (k1 == "ret") != want_accept:
                        add("R11.4", f"{cell}: code {'accepts' if k1 == 'ret' else 'rejects'} but documented common types are "
                            f"{sorted(rev[x] for x in cd)} (type_to_check={rev.get(ttc)})", "binary_implicit_promotion")
                    elif k1 == "ret":
                        if rt is not None:
                            ok = v1 == rt
                        elif ttc is not None:
                            ok = v1 in {a, b, ttc}
                        else:
                            ok = v1 in cd or v1 in {a, b}
                        if not (isinstance(v1, ClassVal) and ok):
                            add("R11.4", f"{cell}: result type {v1} is not the declared return type / an operand type / "
                                f"a documented common type", "binary_implicit_promotion")
                        if k1 == "raise" and v1 not in ("1-1-1-1", "1-1-1-2"):
                            add("R11.4", f"{cell}: rejection raises {v1}, not a coded type error", "binary_implicit_promotion")
                    if k1 == "raise" and v1 not in ("1-1-1-1", "1-1-1-2"):
                        add("R11.4", f"{cell}: rejection raises {v1!r} instead of SemanticError 1-1-1-1/1-1-1-2",
                            "binary_implicit_promotion")
                    if declared:
                        rep.instance("R11.5", "binary/" + cell, nontrivial=nontriv)

    # ---- unary ---------------------------------------------------------------------------------------
    for ttc in ttc_values:
        for rt in rt_values:
            declared = (ttc, rt) in pairs
            for a in types:
                args = {"operand_type": a, "type_to_check": ttc, "return_type": rt}
                k1, v1 = outcome(P, "unary_implicit_promotion", args)
                kc, vc = outcome(P, "check_unary_implicit_promotion", args)
                ncell += 1
                cell = f"{rev[a]}/ttc={rev.get(ttc)}/rt={rev.get(rt)}"
                want_accept = ttc is None or ttc in doc_full[a]
                rep.instance("R11.2", "unary/" + cell, nontrivial=a != null and ttc is not None)
                f = P.func(f"{DT}.unary_implicit_promotion")
                if kc != "ret" or not isinstance(vc, bool) or (k1 == "ret") != vc:
                    rep.add(Finding("R11.2", f"R11.2/unary/{cell}", file, f.node.lineno, f.qualname,
                                    f"check_unary says {kc} {vc} but unary_implicit_promotion {k1} {v1} for {cell}"))
                rep.instance("R11.4", "unary/" + cell, nontrivial=a != null and ttc is not None)
                if (k1 == "ret") != want_accept:
                    rep.add(Finding("R11.4", f"R11.4/unary/{cell}", file, f.node.lineno, f.qualname,
                                    f"{cell}: code {'accepts' if k1 == 'ret' else 'rejects'}; documented implicit targets of "
                                    f"{rev[a]} are {sorted(rev[x] for x in doc_full[a])}"))
                elif k1 == "ret":
                    ok = (v1 == rt) if rt is not None else (v1 in {a, ttc})
                    if not ok:
                        rep.add(Finding("R11.4", f"R11.4/unary-result/{cell}", file, f.node.lineno, f.qualname,
                                        f"{cell}: result type {v1} is neither the declared return type nor operand/type_to_check"))
                elif v1 not in ("1-1-1-1", "1-1-1-2"):
                    rep.add(Finding("R11.4", f"R11.4/unary-error/{cell}", file, f.node.lineno, f.qualname,
                                    f"{cell}: rejection raises {v1!r} instead of a coded type error"))
                if declared:
                    rep.instance("R11.5", "unary/" + cell, nontrivial=a != null)

    for x in sorted(noncomm_info)[:6]:
        rep.note(f"R11.3 (information): promotion without type_to_check is order-dependent for non-commutative users: {x}")

    # ---- R11.5b: the generic validation methods reach a promotion function on every path ----------------
    funnel(P, rep)
    call_scoped_class_state(P, rep)
    own_compatibility_symmetric(P, rep, list(types), rev)
    multi_branch_result_type(P, rep, list(types), rev)
    # ---- R11.6 purity -----------------------------------------------------------------------------------
    purity(P, rep)

    rep.analysed = {"types": [rev[t] for t in types], "cells_evaluated": ncell,
                    "operator_classes": ncls,
                    "declared_pairs": {f"{rev.get(k[0])}/{rev.get(k[1])}": len(v) for k, v in pairs.items()},
                    "commutative_pairs": {f"{rev.get(k[0])}/{rev.get(k[1])}": v for k, v in commutative_pairs.items()}}
    # ---- R11.6 (cont.): memoised helpers on the promotion path must not hand out shared mutable results ----
    CACHE = {"lru_cache", "cache", "functools.lru_cache", "functools.cache"}
    ncache = 0
    for f_ in P.iter_functions():
        if not f_.module.name.startswith("vtlengine.DataTypes"):
            continue
        if not any(d in CACHE or d.split(".")[-1] in CACHE for d in f_.decorators):
            continue
        ncache += 1
        for r_ in walk_no_nested(f_.node):
            if not isinstance(r_, ast.Return) or r_.value is None:
                continue
            v = r_.value
            mutable = isinstance(v, (ast.Set, ast.List, ast.Dict, ast.SetComp, ast.ListComp, ast.DictComp)) or \
                (isinstance(v, ast.Call) and isinstance(v.func, ast.Attribute) and v.func.attr in ("intersection", "union", "difference", "symmetric_difference", "copy")) or \
                (isinstance(v, ast.Call) and isinstance(v.func, ast.Name) and v.func.id in ("set", "list", "dict")) or \
                (isinstance(v, ast.BinOp) and isinstance(v.op, (ast.BitAnd, ast.BitOr, ast.Sub)))
            rep.instance("R11.6", f"memo-result/{f_.name}", nontrivial=True)
            if mutable:
                rep.add(Finding("R11.6", f"R11.6/memo-result/{f_.qualname}", f_.module.rel, r_.lineno, f_.qualname,
                                f"{f_.name} is memoised and returns a mutable container (`{src(v)[:60]}`): every caller gets the SAME object, and the promotion functions "
                                f"edit the set they get (`discard`, `pop`), so the first call empties the cached entry and later promotions of the same pair give a different verdict"))
    rep.instance("R11.6", "memoised-helpers-in-DataTypes", nontrivial=False, sample=ncache)
    # ---- R11.6 (cont.): no type-rule function of the operator classes is memoised on state outside its key ----
    from sa import globalsx as _gx
    nmem = 0
    for f_, why_, line_ in _gx.memo_findings(P, ("vtlengine.Operators", "vtlengine.DataTypes")):
        nmem += 1
        rep.add(Finding("R11.6", f"R11.6/memo/{f_.qualname}", f_.module.rel, line_, f_.qualname,
                        f"{f_.name} is memoised and {why_}: the result type reported for an operator then depends on which call of the same operand types was analysed first"))
    rep.instance("R11.6", "memoised-type-rules", nontrivial=False, sample={"findings": nmem})
    # ---- R11.10: the result type of an n-ary set operator is the promotion of all its operands, in any order ----
    rep.rule("R11.10", "Set.validate evaluated on three operands over type / nullability triples: result type == pairwise fold of binary_implicit_promotion, nullable == any operand nullable")
    set_operator_result(P, rep, "R11.10")
    rep.assumptions = ["each operator's declared type_to_check is taken as given (no in-repo oracle says which type an "
                       "operator should admit)", "docs/data_types.rst is the oracle for the implicit table"]
    rep.floor("decision-table cells", ncell, 1800)


COMMUTATIVE_TOKENS = {"PLUS", "MULT", "AND", "OR", "XOR", "EQ", "NEQ"}
PROMO = {"binary_implicit_promotion", "check_binary_implicit_promotion", "unary_implicit_promotion",
         "check_unary_implicit_promotion"}
FUNNEL_METHODS = {"dataset_validation", "dataset_scalar_validation", "scalar_validation", "component_validation",
                  "component_scalar_validation", "dataset_set_validation", "component_set_validation",
                  "scalar_set_validation", "apply_return_type_dataset", "type_validation", "validate_type_compatibility",
                  "validate_dataset_type", "validate_scalar_type"}
# Overrides of funnel methods that do not themselves pass through a promotion function on every path.
FUNNEL_EXEMPT = {
    "vtlengine.Operators.Unary.validate_dataset_type": "guarded by `cls.type_to_check is not None`: nothing to check when the operator admits every type",
    "vtlengine.Operators.CastOperator.Cast.dataset_validation": "cast follows the explicit conversion table (C09), not implicit promotion",
    "vtlengine.Operators.CastOperator.Cast.component_validation": "cast follows the explicit conversion table (C09)",
    "vtlengine.Operators.CastOperator.Cast.scalar_validation": "cast follows the explicit conversion table (C09)",
    "vtlengine.Operators.Time.Time_Aggregation.dataset_validation": "time_agg dispatches on the three time types explicitly",
    "vtlengine.Operators.Time.Time_Aggregation.component_validation": "time_agg dispatches on the three time types explicitly",
    "vtlengine.Operators.Time.Time_Aggregation.scalar_validation": "time_agg dispatches on the three time types explicitly",
    "vtlengine.Operators.Time.SimpleBinaryTime.validate_type_compatibility": "additional Date/Time_Period exclusion for datediff; validate() then calls super().validate which type-checks",
}


def _callee_names(g, n) -> Set[str]:
    out: Set[str] = set()
    for c in g.calls_at(n):
        if isinstance(c.func, ast.Name):
            out.add(c.func.id)
        elif isinstance(c.func, ast.Attribute):
            out.add(c.func.attr)
    return out


def funnel(P: Program, rep: Report) -> None:
    from sa.cfg import CFG, describe_path
    checking = set(PROMO) | FUNNEL_METHODS
    op_base = P.cls("vtlengine.Operators.Operator")
    n = 0
    for c in P.subclasses(op_base.qualname):
        for name, f in c.methods.items():
            if name not in FUNNEL_METHODS:
                continue
            g = CFG(f.node, for_nonempty=True)
            path = g.path_avoiding(g.entry, lambda x: x is g.exit, lambda x: bool(_callee_names(g, x) & checking),
                                   follow_exc=False)
            n += 1
            rep.instance("R11.5", f"funnel/{f.qualname}", nontrivial=True,
                         sample={"method": f.qualname, "bypass_path": None if path is None else describe_path(path)[:6]}
                         if c.qualname.endswith((".Binary", ".Unary")) else None)
            if path is not None:
                if f.qualname in FUNNEL_EXEMPT:
                    rep.exemption("R11.5", f.qualname, FUNNEL_EXEMPT[f.qualname])
                    continue
                rep.add(Finding("R11.5", f"R11.5/funnel/{f.qualname}", f.module.rel, f.node.lineno, f.qualname,
                                "a path returns without passing through a promotion function / type_validation / "
                                "validate_type_compatibility: operands on that path are accepted unchecked",
                                describe_path(path)))
    rep.floor("funnel methods", n, 20)
    for q in FUNNEL_EXEMPT:
        if q not in P.functions:
            rep.note(f"R11.5 exemption no longer needed (function gone): {q}")


# pairs an operator-specific pre-check may reject although the generic promotion would accept them (reviewed, one reason each)
OWN_COMPAT_REVIEWED: Dict[str, Set[frozenset]] = {
    "vtlengine.Operators.Time.SimpleBinaryTime": {frozenset(("Date", "Time_Period"))},  # datediff does not mix a date with a period (both promote to Time, but a difference in days is undefined)
}


def own_compatibility_symmetric(P: Program, rep: Report, types: List[ClassVal], rev: Dict[ClassVal, str]) -> None:
    """R11.8  An operator class that decides type compatibility of two operands with code of its own (an override of
    validate_type_compatibility(left, right) outside the generic Binary) is evaluated over all 9x9 type pairs: "the operands have a
    common type the operator admits" is symmetric in the operands, so acceptance must not depend on their order."""
    from sa.e6 import Interp, Raised, Unmodelled
    rep.rule("R11.8", "operator-specific validate_type_compatibility(left, right) overrides accept a type pair iff they accept the swapped pair (9x9, evaluated)")
    n = 0
    for c in sorted(P.classes.values(), key=lambda k: k.qualname):
        if not c.qualname.startswith("vtlengine.Operators.") or c.qualname == "vtlengine.Operators.Binary":
            continue
        f = c.methods.get("validate_type_compatibility")
        if f is None:
            continue
        params = [a.arg for a in f.node.args.args if a.arg not in ("cls", "self")]
        if len(params) != 2 or f.node.args.vararg is not None:
            continue
        table: Dict[Tuple[ClassVal, ClassVal], Any] = {}
        for a in types:
            for b in types:
                try:
                    table[(a, b)] = bool(Interp(P).call(f, {params[0]: a, params[1]: b}, bound_cls=ClassVal(c.qualname)))
                except Raised:
                    table[(a, b)] = "raises"
                except Unmodelled as e:
                    raise AnalysisError(f"R11.8: {f.qualname} outside the evaluator's language: {e}")
        n += 1
        # the override is a PRE-check in front of the generic promotion: besides being symmetric it may only reject, and only the reviewed pairs
        fgen = P.func(f"{DT}.check_binary_implicit_promotion")
        for sub in [c] + P.subclasses(c.qualname):
            ttc, rt = P.lookup_attr(sub, "type_to_check"), P.lookup_attr(sub, "return_type")
            if ttc is None or rt is None or not isinstance(ttc[1], ast.Name) or not isinstance(rt[1], ast.Name):
                continue
            tv, rv = ClassVal(f"{DT}.{ttc[1].id}"), ClassVal(f"{DT}.{rt[1].id}")
            extra: List[Tuple[str, str]] = []
            for a in types:
                for b in types:
                    try:
                        gp = [x.arg for x in fgen.node.args.args]
                        gen = bool(Interp(P).call(fgen, dict(zip(gp, (a, b, tv, rv)))))
                    except Raised:
                        gen = False
                    except Unmodelled as e:
                        raise AnalysisError(f"R11.8: check_binary_implicit_promotion outside the evaluator's language: {e}")
                    if gen and table[(a, b)] is False and frozenset((rev[a], rev[b])) not in OWN_COMPAT_REVIEWED.get(c.qualname, set()):
                        extra.append((rev[a], rev[b]))
            rep.instance("R11.8", f"restricts-only-reviewed/{sub.qualname}", nontrivial=True, sample={"operator": sub.qualname, "type_to_check": ttc[1].id})
            if extra:
                rep.add(Finding("R11.8", f"R11.8/restricts/{sub.qualname}", f.module.rel, f.node.lineno, f.qualname,
                                f"{sub.short if hasattr(sub, 'short') else sub.qualname.rsplit('.', 1)[-1]}: the operator's own pre-check rejects {extra[:4]} ({len(extra)} pair(s)) although the implicit-cast table gives "
                                f"them a common type admitted by {ttc[1].id} and the promotion reports {rt[1].id}: the check that accepts a type pair no longer agrees with the promotion that computes its result "
                                f"(e.g. datediff(<date>, null))"))
        asym = [(a, b) for (a, b), v in table.items() if v != table[(b, a)]]
        rep.instance("R11.8", f"symmetric/{f.qualname}", nontrivial=True, sample={"method": f.qualname, "accepted pairs": sum(1 for v in table.values() if v is True)})
        if asym:
            a, b = asym[0]
            rep.add(Finding("R11.8", f"R11.8/symmetric/{f.qualname}", f.module.rel, f.node.lineno, f.qualname,
                            f"{f.qualname}({rev[a]}, {rev[b]}) is {table[(a, b)]} but ({rev[b]}, {rev[a]}) is {table[(b, a)]} ({len(asym) // 2} pair(s)): whether the operator accepts two "
                            f"operand types depends on the order they are written in, although having a common admitted type does not"))
    rep.floor("R11.8 own compatibility functions", n, 1)


def multi_branch_result_type(P: Program, rep: Report, types: List[ClassVal], rev: Dict[ClassVal, str]) -> None:
    """R11.9  case ... when ... then ... else at component level takes the common type of ALL its branches: Case.validate is evaluated for
    three branch types in every order.  Acceptance and result type must not depend on the order of the branches (the common type of
    a set of types), and must equal folding the untyped promotion over the branches in any order."""
    from sa import structmodel as sm
    from sa.e6 import Interp, Raised, Unmodelled
    import itertools
    rep.rule("R11.9", "case at component level: acceptance and result type are the same for every order of the branch types (three branches, all permutations, evaluated)")
    f = P.func("vtlengine.Operators.Conditional.Case.validate")
    M = sm.Model(P)
    Bool = ClassVal(f"{DT}.Boolean")

    def comp(t: ClassVal, i: int) -> Any:
        return sm.MComp(f"Me_{i}", M.roles["MEASURE"], t, True)

    def tp(o: Any) -> Any:
        return ClassVal("vtlengine.Model.DataComponent") if isinstance(o, sm.MComp) else ClassVal("vtlengine.Model.Scalar") if getattr(o, "_cls", "") == "Scalar" else type(o)
    ext = {"VirtualCounter._new_ds_name": lambda: "__DS__", "VirtualCounter._new_dc_name": lambda: "__DC__", "type": tp, "map": lambda fn, it: [fn(x) for x in it],
           "isinstance": sm._isinstance, "DataComponent": lambda **kw: sm.MComp(kw["name"], kw.get("role"), kw.get("data_type"), kw.get("nullable", True))}
    names = ("Integer", "Number", "String", "Boolean", "Date", "TimePeriod", "TimeInterval", "Null")
    pool = [t for t in types if t.short in names]
    n = 0
    shown = 0
    for trio in itertools.combinations(pool, 3):
        outs = {}
        for perm in itertools.permutations(trio):
            conds = [comp(Bool, 10), comp(Bool, 11)]
            try:
                r = Interp(P, externals=ext).call(f, {"conditions": conds, "thenOps": [comp(perm[0], 0), comp(perm[1], 1)], "elseOp": comp(perm[2], 2)},
                                                  bound_cls=ClassVal("vtlengine.Operators.Conditional.Case"))
                outs[perm] = ("ok", getattr(r, "data_type", None))
            except Raised as e:
                outs[perm] = ("raise", getattr(e.exc, "code", None))
            except Unmodelled as e:
                raise AnalysisError(f"R11.9: Case.validate outside the evaluator's language: {e}")
        n += 1
        rep.instance("R11.9", "case/" + ",".join(rev[t] for t in trio), nontrivial=True)
        if len(set(outs.values())) > 1 and shown < 5:
            shown += 1
            (p1, o1), (p2, o2) = next(((a, oa), (b, ob)) for a, oa in outs.items() for b, ob in outs.items() if oa != ob)
            rep.add(Finding("R11.9", "R11.9/case/" + ",".join(rev[t] for t in trio), f.module.rel, f.node.lineno, f.qualname,
                            f"case with branch types {[rev[t] for t in p1]} gives {o1[0]} {rev.get(o1[1], o1[1])}, with {[rev[t] for t in p2]} gives {o2[0]} {rev.get(o2[1], o2[1])}: "
                            f"the result type of a case is the common type of all its branches and cannot depend on the order they are written in"))
    rep.floor("R11.9 branch-type triples", n, 40)


def call_scoped_class_state(P: Program, rep: Report, rule: str = "R11.7") -> None:
    """R11.7  see sa/classstate.py"""
    from sa import classstate
    rep.rule(rule, "operator classes: a class attribute assigned inside a method (cls.A = ...) is assigned on every path before the same call uses it (no type decision carried over from a previous call)")
    nm = nob = 0
    for c in sorted(P.classes.values(), key=lambda k: k.qualname):
        if not c.qualname.startswith("vtlengine.Operators."):
            continue
        for name, f in sorted(c.methods.items()):
            fnd, k = classstate.stale_reads(P, f)
            if k:
                nm += 1
                nob += k
                rep.instance(rule, f"class-state/{f.qualname}", nontrivial=True, sample={"method": f.qualname, "uses_examined": k} if nm <= 3 else None)
            for d in fnd:
                hole = ", ".join(f"`{g}` is {v}" for g, v in d["hole"].items()) or "unconditionally"
                rep.add(Finding(rule, f"{rule}/{f.qualname}/{d['attr']}", f.module.rel, d["line"], f.qualname,
                                f"{f.qualname} assigns the class attribute `{d['attr']}` (line(s) {d['writes']}) but line {d['line']} {d['how']} on a path where this call "
                                f"has not assigned it ({hole}): the value used is the one left by an earlier call of the operator, so the result type depends on the call history"
                                + (f"; guard(s) over reassigned names: {d['unstable']}" if d["unstable"] else "")))
    rep.floor(f"{rule} methods writing class state", nm, 3)
    rep.floor(f"{rule} uses examined", nob, 4)


MUTATORS = {"add", "update", "pop", "popitem", "discard", "remove", "clear", "setdefault", "append", "extend", "insert",
            "sort", "reverse", "__setitem__", "difference_update", "intersection_update", "symmetric_difference_update"}


def purity(P: Program, rep: Report) -> None:
    """R11.6: result of the promotion functions depends only on their arguments and the constant tables."""
    m = P.module(DT)
    for fname in sorted(PROMO):
        f = P.func(f"{DT}.{fname}")
        params = set(f.params)
        aliases: Set[str] = set()  # locals bound to (parts of) module-level objects
        changed = True
        assigns = [n for n in walk_no_nested(f.node) if isinstance(n, ast.Assign)]
        def rooted_global(e: ast.AST) -> bool:
            while isinstance(e, (ast.Subscript, ast.Attribute)):
                e = e.value
            return isinstance(e, ast.Name) and ((e.id in m.assigns and e.id not in params) or e.id in aliases)
        while changed:
            changed = False
            for a in assigns:
                if rooted_global(a.value):
                    for t in a.targets:
                        if isinstance(t, ast.Name) and t.id not in aliases:
                            aliases.add(t.id)
                            changed = True
        bad: List[Tuple[int, str]] = []
        for n in walk_no_nested(f.node):
            if isinstance(n, (ast.Global, ast.Nonlocal)):
                bad.append((n.lineno, f"`{src(n)}`: writes module state"))
            elif isinstance(n, (ast.Assign, ast.AugAssign, ast.Delete)):
                tg = n.targets if isinstance(n, (ast.Assign, ast.Delete)) else [n.target]
                for t in tg:
                    if isinstance(t, (ast.Subscript, ast.Attribute)) and rooted_global(t):
                        bad.append((n.lineno, f"`{src(n)[:60]}` stores into a module-level object"))
            elif isinstance(n, ast.Call) and isinstance(n.func, ast.Attribute) and n.func.attr in MUTATORS and rooted_global(n.func.value):
                bad.append((n.lineno, f"`{src(n)[:60]}` mutates a module-level object (or an alias of a table entry)"))
            elif isinstance(n, ast.Compare) and any(isinstance(o, (ast.In, ast.NotIn)) for o in n.ops):
                for cmp_ in n.comparators:
                    if isinstance(cmp_, ast.Name) and cmp_.id in m.assigns and cmp_.id not in params:
                        v = m.assigns[cmp_.id]
                        if isinstance(v, (ast.Dict, ast.Set, ast.List)) and not (v.keys if isinstance(v, ast.Dict) else v.elts):
                            bad.append((n.lineno, f"`{src(n)[:60]}` consults an initially empty module-level container (memo/cache state)"))
        for d in f.decorators:
            if d.split(".")[-1] in ("lru_cache", "cache"):
                # a memo of a pure function is pure only if every parameter is in the key (true for lru_cache)
                pass
        rep.instance("R11.6", fname, nontrivial=True, sample={"function": fname, "global_aliases": sorted(aliases)})
        for line, msg in bad:
            rep.add(Finding("R11.6", f"R11.6/{fname}/{msg.split('`')[1][:40]}", f.module.rel, line, f.qualname,
                            f"promotion function is not pure: {msg}"))


def set_operator_result(P: Program, rep: Report, rule: str) -> None:
    """Set.validate (union / intersect / setdiff / symdiff) evaluated on three operands whose measure has types (t1, t2, t3) and nullability
    (n1, n2, n3) in every order: the result type is the promotion of ALL operand types (the same for every order of the operands, equal to
    the pairwise fold of binary_implicit_promotion) and the result is nullable iff some operand is.  Shared with C10."""
    import itertools as _it
    from sa import structmodel as _sm
    from sa.e6 import Interp as _I, Raised as _R, Unmodelled as _U
    M = _sm.Model(P)
    fv = P.func("vtlengine.Operators.Set.Set.validate")
    fp = P.func("vtlengine.DataTypes.binary_implicit_promotion")
    dt = "vtlengine.DataTypes."

    def promote(a: Any, b: Any) -> Any:
        return _I(P, max_steps=20000).call(fp, {"left_type": a, "right_type": b})
    n = 0
    shown = 0
    for types in (("Integer", "Number", "Integer"), ("Integer", "Integer", "Number"), ("Number", "Integer", "Integer"), ("Integer", "Integer", "Integer"), ("String", "String", "String")):
        for nulls in ((False, True, False), (False, False, False), (True, False, False), (False, False, True)):
            ops = []
            for k, (t, nl) in enumerate(zip(types, nulls)):
                d = M.ds(f"DS_{k + 1}", ["Id_1"], ["Me_1"])
                d.components["Me_1"].data_type = ClassVal(dt + t)
                d.components["Me_1"].nullable = nl
                ops.append(d)
            ext = {"cls.check_same_structure": lambda a, b: None, "Dataset": M.mk_dataset, "isinstance": _sm._isinstance,
                   "copy": lambda x: _sm.MComp(x.name, x.role, x.data_type, x.nullable) if isinstance(x, _sm.MComp) else x}
            try:
                res = _I(P, externals=ext, max_steps=40000).call(fv, {"operands": ops}, bound_cls=ClassVal("vtlengine.Operators.Set.Union"))
                got = (getattr(res.components["Me_1"].data_type, "short", str(res.components["Me_1"].data_type)), res.components["Me_1"].nullable)
            except _R as r:
                got = (f"<raises {getattr(r.exc, 'code', None)}>", None)
            except _U as e:
                raise AnalysisError(f"{rule}: Set.validate outside the evaluator's language: {e}")
            want_t = promote(promote(ClassVal(dt + types[0]), ClassVal(dt + types[1])), ClassVal(dt + types[2]))
            want = (getattr(want_t, "short", str(want_t)), any(nulls))
            n += 1
            if n <= 3:
                rep.instance(rule, f"set-result/{'+'.join(types)}/{nulls}", nontrivial=True, sample={"types": list(types), "nullable": list(nulls), "result": list(got)})
            if got != want and shown < 3:
                shown += 1
                rep.add(Finding(rule, f"{rule}/set-result/{'+'.join(types)}/{'+'.join(str(int(x)) for x in nulls)}", fv.module.rel, fv.node.lineno, fv.qualname,
                                f"union of three datasets whose measure has the types {list(types)} and nullability {list(nulls)}: semantic analysis declares ({got[0]}, nullable={got[1]}), "
                                f"the promotion of all operand types gives ({want[0]}, nullable={want[1]}): the declared type depends on the order of the operands and the returned data "
                                f"(a 1.5, a null) do not conform to it"))
    rep.instance(rule, "set-result/cells", nontrivial=True, sample={"cells": n})
    rep.floor(f"{rule} set-operator cells", n, 20)
