"""C30 - numeric precision settings (DESIGN §3 C30).

R30.1 set_decimal_config, lowered to a decision table over (W,S) ∈ ({unset} ∪ [-5..45])²: accepted set == documented
      ranges; rejection is RunTimeError 0-4-1-1 naming an offending variable and its value; accepted values are
      published unchanged; accepted (w,s) must satisfy DuckDB's DECIMAL rule s ≤ w ≤ 38
R30.2 MIN/MAX/DEFAULT constants == docs/environment_variables.rst
R30.3 get_decimal_type() is the only producer of the Number column type and nothing derived from it is memoised
R30.4 history independence: the outcome for a setting does not depend on earlier calls (accepted or rejected)
R30.5 the loaders convert a Number to the configured DECIMAL(w,s) from its decimal TEXT: the CSV reader is told to read the field
      as that DECIMAL type (or VARCHAR), and the DataFrame / parquet SELECT casts a binary-float source column (FLOAT / DOUBLE /
      REAL) through VARCHAR (shortest round-trip text) - DuckDB's DOUBLE -> DECIMAL cast stores the binary expansion of the value
      (2904078.757 -> 2904078.7570000004 at scale 10), which the configured scale then exposes.  Both functions are evaluated (E6)
      for a Number component over the source types a pandas / parquet column can have
Not decided: rounding of stored values and exactness of sums (DuckDB arithmetic).
"""
from __future__ import annotations

import ast
import re
from typing import Any, Dict, List, Optional, Tuple

from sa import rst
from sa.callgraph import callgraph
from sa.core import AnalysisError, Finding, Program, Report, program, src, walk_no_nested
from sa.e6 import ExcVal, Interp, Raised

CFGMOD = "vtlengine.duckdb_transpiler.Config.config"
UNSET = None
DOMAIN: List[Optional[int]] = [UNSET] + list(range(-5, 46))


def docs_ranges(P: Program) -> Dict[str, Dict[str, int]]:
    path = P.repo / "docs" / "environment_variables.rst"
    tabs = rst.tables(path)
    out: Dict[str, Dict[str, int]] = {}
    for var in ("OUTPUT_NUMBER_SIGNIFICANT_DIGITS", "VTL_DUCKDB_DECIMAL_WIDTH"):
        t = [x for x in tabs if x.title.strip("`") == var]
        if not t:
            raise AnalysisError(f"docs table for {var} not found")
        d: Dict[str, int] = {}
        for row in t[0].rows[1:]:
            m = re.match(r"^(-?\d+) to (-?\d+)$", row[0])
            if m:
                d["min"], d["max"] = int(m.group(1)), int(m.group(2))
            elif row[0] == "Not defined":
                nums = re.findall(r"(\d+)(?: significant digits)?(?: \((\w+)\))?", row[1])
                # "Uses default value of 15 significant digits (pandas) / 10 (DuckDB)"  |  "Uses default value of 28"
                mm = re.search(r"(\d+)\s*\(DuckDB\)", row[1]) or re.search(r"default value of (\d+)", row[1])
                if mm:
                    d["default"] = int(mm.group(1))
            elif re.match(r"^-?\d+$", row[0]):
                d["disable"] = int(row[0])
                mm = re.search(r"maximum (?:scale|precision|width) of (\d+)", row[1])
                if mm:
                    d["disabled_means"] = int(mm.group(1))
        for k in ("min", "max", "default", "disable"):
            if k not in d:
                raise AnalysisError(f"docs table for {var}: could not read {k}")
        out[var] = d
    return out


def make_interp(P: Program, env: Dict[str, str]) -> Interp:
    def getenv(name: str, default: Any = None) -> Any:
        return env.get(name, default)
    return Interp(P, externals={"os.getenv": getenv, "os.environ.get": getenv, "getenv": getenv})


def evaluate(P: Program, it: Interp, env: Dict[str, str], w: Optional[int], s: Optional[int], names: Tuple[str, str]) -> Tuple[str, Any]:
    env.clear()
    if w is not None:
        env[names[0]] = str(w)
    if s is not None:
        env[names[1]] = str(s)
    f = P.func(f"{CFGMOD}.set_decimal_config")
    try:
        it.call(f, {})
    except Raised as r:
        return "raise", r.exc
    g = it.globals_written
    return "ok", (g.get(f"{CFGMOD}.DECIMAL_WIDTH"), g.get(f"{CFGMOD}.DECIMAL_SCALE"))


def run(rep: Report, tier: str) -> None:
    P = program()
    m = P.module(CFGMOD)
    rep.explanation = ("set_decimal_config is lowered to a guard/raise decision table (os.getenv modelled as a lookup in the "
                       "checker's own mapping) and evaluated over every (width, scale) setting in ({unset} ∪ [-5..45])², from "
                       "a fresh state and after other settings; constants are compared with the docs tables; memoisation of "
                       "anything derived from the decimal type is searched in the call graph.")
    rep.rule("R30.1", "accepted settings == documented ranges; coded rejection names the offending variable; s ≤ w ≤ 38")
    rep.rule("R30.2", "MIN/MAX/DEFAULT constants == docs")
    rep.rule("R30.3", "single un-memoised producer of the Number column type")
    rep.rule("R30.4", "outcome of a setting independent of earlier settings (history independence)")
    const = {}
    it0 = make_interp(P, {})
    fsd = P.func(f"{CFGMOD}.set_decimal_config")
    for name in ("DECIMAL_WIDTH_ENV_VAR", "DECIMAL_SCALE_ENV_VAR", "DEFAULT_DECIMAL_WIDTH", "DEFAULT_DECIMAL_SCALE",
                 "MAX_DECIMAL_WIDTH", "MIN_DECIMAL_WIDTH", "MAX_DECIMAL_SCALE", "MIN_DECIMAL_SCALE", "DISABLE_VALUE"):
        if name not in m.assigns:
            raise AnalysisError(f"anchor vanished: config.{name}")
        const[name] = it0.module_name(m, name, fsd)
    wname, sname = const["DECIMAL_WIDTH_ENV_VAR"], const["DECIMAL_SCALE_ENV_VAR"]
    docs = docs_ranges(P)
    if wname not in docs or sname not in docs:
        raise AnalysisError(f"environment variable names {wname}/{sname} not documented")
    dw, ds = docs[wname], docs[sname]

    # ---- R30.2 -----------------------------------------------------------------------------------------
    for cname, want, what in [("MIN_DECIMAL_WIDTH", dw["min"], "width min"), ("MAX_DECIMAL_WIDTH", dw["max"], "width max"),
                              ("DEFAULT_DECIMAL_WIDTH", dw["default"], "width default"), ("MIN_DECIMAL_SCALE", ds["min"], "scale min"),
                              ("MAX_DECIMAL_SCALE", ds["max"], "scale max"), ("DEFAULT_DECIMAL_SCALE", ds["default"], "scale default"),
                              ("DISABLE_VALUE", dw["disable"], "disable value")]:
        rep.instance("R30.2", cname, nontrivial=True, sample={"constant": cname, "code": const[cname], "docs": want})
        if const[cname] != want:
            rep.add(Finding("R30.2", f"R30.2/{cname}", m.rel, m.assigns[cname].lineno, CFGMOD,
                            f"{cname} = {const[cname]} but docs/environment_variables.rst documents {what} = {want}"))

    def documented(v: Optional[int], d: Dict[str, int]) -> Optional[int]:
        """effective value if the setting is documented as valid, else None"""
        if v is None:
            return d["default"]
        if v == d["disable"]:
            return d["max"]
        return v if d["min"] <= v <= d["max"] else None

    # ---- R30.1 -----------------------------------------------------------------------------------------
    env: Dict[str, str] = {}
    bad_sw: List[str] = []
    for w in DOMAIN:
        for s in DOMAIN:
            it = make_interp(P, env)
            kind, val = evaluate(P, it, env, w, s, (wname, sname))
            ew, es = documented(w, dw), documented(s, ds)
            want_ok = ew is not None and es is not None
            cell = f"W={w}/S={s}"
            rep.instance("R30.1", cell, nontrivial=True,
                         sample={"cell": cell, "outcome": kind, "value": str(val if kind == "ok" else getattr(val, "code", val))}
                         if (w in (5, 6, 38, 39) and s in (None, 15, 16)) else None)
            if kind == "ok":
                if not want_ok:
                    which = wname if ew is None else sname
                    rep.add(Finding("R30.1", f"R30.1/accepts/{which}={w if ew is None else s}", m.rel, fsd.node.lineno, fsd.qualname,
                                    f"setting {cell} is accepted (→ {val}) although {which} is outside its documented range"))
                elif val != (ew, es):
                    rep.add(Finding("R30.1", f"R30.1/published/{cell}", m.rel, fsd.node.lineno, fsd.qualname,
                                    f"setting {cell} publishes (width, scale) = {val}, documented effective value is {(ew, es)}"))
                elif es > ew:
                    bad_sw.append(cell)
            else:
                exc = val
                if want_ok:
                    rep.add(Finding("R30.1", f"R30.1/rejects/{cell}", m.rel, fsd.node.lineno, fsd.qualname,
                                    f"documented-valid setting {cell} is rejected ({getattr(exc, 'code', exc)})"))
                    continue
                if not isinstance(exc, ExcVal) or exc.kind != "RunTimeError" or exc.code != "0-4-1-1":
                    rep.add(Finding("R30.1", f"R30.1/error-kind/{'W' if ew is None else 'S'}", m.rel, fsd.node.lineno, fsd.qualname,
                                    f"setting {cell} is rejected with {exc} instead of RunTimeError 0-4-1-1"))
                    continue
                offending = {wname: w for _ in [0] if ew is None}
                if es is None:
                    offending[sname] = s
                ev, vv = exc.kwargs.get("env_var"), exc.kwargs.get("value")
                if ev not in offending or str(vv) != str(offending.get(ev)):
                    rep.add(Finding("R30.1", f"R30.1/error-names/{'W' if ew is None else ''}{'S' if es is None else ''}", m.rel,
                                    exc.line or fsd.node.lineno, fsd.qualname,
                                    f"setting {cell}: error names env_var={ev!r} value={vv!r}; offending: {offending}"))
                else:
                    d = dw if ev == wname else ds
                    if (exc.kwargs.get("min_value"), exc.kwargs.get("max_value")) != (d["min"], d["max"]):
                        rep.add(Finding("R30.1", f"R30.1/error-range/{ev}", m.rel, exc.line or fsd.node.lineno, fsd.qualname,
                                        f"setting {cell}: error reports range {exc.kwargs.get('min_value')}..{exc.kwargs.get('max_value')} "
                                        f"for {ev}; documented {d['min']}..{d['max']}"))
    if bad_sw:
        rep.add(Finding("R30.1", "R30.1/scale-exceeds-width", m.rel, fsd.node.lineno, fsd.qualname,
                        f"{len(bad_sw)} documented-valid settings are accepted with scale > width (e.g. {bad_sw[0]}, {bad_sw[-1]}): "
                        f"DECIMAL(w,s) with s > w does not exist in DuckDB → raw BinderException at CREATE TABLE"))

    # ---- R30.4 history independence ---------------------------------------------------------------------
    probes: List[Tuple[Optional[int], Optional[int]]] = [(None, None), (20, 8), (38, 15), (-1, -1), (6, 6), (3, 10), (28, 3), (40, 10), (0, 0)]
    for first in probes:
        for second in probes:
            fresh = make_interp(P, env)
            k0, v0 = evaluate(P, fresh, env, second[0], second[1], (wname, sname))
            it = make_interp(P, env)
            evaluate(P, it, env, first[0], first[1], (wname, sname))
            k1, v1 = evaluate(P, it, env, second[0], second[1], (wname, sname))
            key = f"{first}->{second}"
            rep.instance("R30.4", key, nontrivial=first != second)
            same = (k0 == k1) and ((v0 == v1) if k0 == "ok" else (getattr(v0, "code", None), getattr(v0, "kwargs", None)) ==
                                   (getattr(v1, "code", None), getattr(v1, "kwargs", None)))
            if not same:
                rep.add(Finding("R30.4", f"R30.4/history/{'rejected' if documented(first[0], dw) is None or documented(first[1], ds) is None else 'accepted'}-first",
                                m.rel, fsd.node.lineno, fsd.qualname,
                                f"setting (W,S)={second} gives {k0} {v0 if k0 == 'ok' else getattr(v0, 'kwargs', v0)} from a fresh process "
                                f"but {k1} {v1 if k1 == 'ok' else getattr(v1, 'kwargs', v1)} after a call with (W,S)={first}"))

    # ---- R30.3 ------------------------------------------------------------------------------------------
    cg = callgraph(P)
    producers = [f"{CFGMOD}.get_decimal_type", f"{CFGMOD}.get_decimal_config"]
    for q in producers:
        P.func(q)
    dependants = cg.callers_closure(producers)
    # functions reading the globals directly
    for f in P.iter_functions():
        for n in walk_no_nested(f.node):
            if isinstance(n, (ast.Name, ast.Attribute)) and (src(n).endswith("DECIMAL_WIDTH") or src(n).endswith("DECIMAL_SCALE")) \
                    and not src(n).split(".")[-1].startswith(("MAX_", "MIN_", "DEFAULT_")):
                if f.module.name == CFGMOD or P.resolve_expr(f.module, n) in (f"{CFGMOD}.DECIMAL_WIDTH", f"{CFGMOD}.DECIMAL_SCALE"):
                    dependants.add(f.qualname)
    dependants = cg.callers_closure(sorted(dependants))
    for q in sorted(dependants):
        f = P.functions[q]
        rep.instance("R30.3", f"memo/{q}", nontrivial=True)
        memo = [d for d in f.decorators if d.split(".")[-1] in ("lru_cache", "cache", "cached_property")]
        if memo:
            rep.add(Finding("R30.3", f"R30.3/memoised/{q}", f.module.rel, f.node.lineno, q,
                            f"@{memo[0]} on a function whose result depends on the decimal configuration, which is re-read "
                            f"for every connection: later runs under a different setting reuse the first run's DECIMAL type"))
    # module-level evaluation of the producers
    for mod in P.modules.values():
        for st in mod.tree.body:
            if isinstance(st, (ast.Assign, ast.AnnAssign)) and st.value is not None:
                for n in ast.walk(st.value):
                    if isinstance(n, ast.Call) and P.resolve_expr(mod, n.func) in producers:
                        rep.add(Finding("R30.3", f"R30.3/import-time/{mod.name}", mod.rel, st.lineno, mod.name,
                                        "decimal type evaluated at import time: frozen before set_decimal_config runs"))
    # hard-coded DECIMAL(p,s) in Python SQL strings outside get_decimal_type
    for mod in P.modules.values():
        for n in ast.walk(mod.tree):
            if isinstance(n, ast.Constant) and isinstance(n.value, str) and re.search(r"\bDECIMAL\s*\(\s*\d", n.value):
                fn, _ = P.enclosing(mod, n)
                if _in_docstring(n):
                    continue
                rep.instance("R30.3", f"literal/{mod.name}:{n.lineno}", nontrivial=True)
                rep.add(Finding("R30.3", f"R30.3/hardcoded/{fn.qualname if fn else mod.name}", mod.rel, n.lineno,
                                fn.qualname if fn else mod.name, f"hard-coded {n.value[:40]!r}: Number columns must use get_decimal_type()"))
    rep.floor("functions depending on the decimal type", len(dependants), 4)
    rep.analysed = {"settings_evaluated": len(DOMAIN) ** 2, "dependants_of_decimal_type": sorted(dependants)[:40],
                    "docs": docs}
    # ---- R30.5 a Number reaches its DECIMAL(w,s) column from decimal TEXT, never through a binary-float -> DECIMAL cast ----
    rep.rule("R30.5", "loaders: a Number column is converted to the configured DECIMAL type from text (CSV field / VARCHAR rendering), never cast from a binary float")
    _number_load_paths(P, rep)
    # ---- R30.6 Number values reach the DECIMAL column from their written form: no pandas / numpy float conversion on the load path ----
    rep.rule("R30.6", "the loaders never push Number data through a binary float on the Python side (pd.to_numeric / astype(float) / np.float64): values needing more than ~15 digits are stored exactly")
    n6 = 0
    FLOATERS = {"to_numeric", "float64", "float32", "to_numpy"}
    for f6 in P.iter_functions():
        if not f6.module.name.startswith("vtlengine.duckdb_transpiler.io"):
            continue
        n6 += 1
        for c6 in walk_no_nested(f6.node):
            if not isinstance(c6, ast.Call):
                continue
            nm = src(c6.func).split(".")[-1]
            bad = nm in FLOATERS or (nm == "astype" and c6.args and ("float" in src(c6.args[0]).lower() or "double" in src(c6.args[0]).lower())) \
                or (nm == "float" and isinstance(c6.func, ast.Name) and c6.args and not isinstance(c6.args[0], ast.Constant))
            if bad:
                rep.add(Finding("R30.6", f"R30.6/float-conversion/{f6.qualname}/{nm}", f6.module.rel, c6.lineno, f6.qualname,
                                f"`{src(c6)[:80]}` converts input data to binary floating point on the load path: a Number written with more digits than a double holds "
                                f"(100000000000000000.1234567890) reaches the DECIMAL column rounded, although the configured precision could store it"))
    rep.instance("R30.6", "loader-functions-scanned", nontrivial=False, sample={"functions": n6})
    rep.floor("R30.6 loader functions", n6, 10)
    # ---- R30.7: the Number column type is the DECIMAL the accepted setting stands for - for every accepted setting, the disable value included ----
    rep.rule("R30.7", "get_decimal_type evaluated after set_decimal_config for every accepted (width, scale) setting, -1 and unset included: the type is exactly "
                      "DECIMAL(<width in effect>,<scale in effect>) as get_decimal_config reports it - never a binary float")
    fgt = P.func(f"{CFGMOD}.get_decimal_type")
    fgc = P.func(f"{CFGMOD}.get_decimal_config")
    n7 = 0
    shown7 = 0
    env7: Dict[str, str] = {}
    for w7 in [None, -1] + list(range(1, 39, 3)) + [28, 38]:
        for s7 in [None, -1, 0, 6, 10, 15]:
            it7 = make_interp(P, env7)
            kind7, val7 = evaluate(P, it7, env7, w7, s7, (wname, sname))
            if kind7 != "ok":
                continue
            try:
                ty7 = it7.call(fgt, {})
                cfg7 = it7.call(fgc, {})
            except Raised as r:
                ty7, cfg7 = f"<raises {getattr(r.exc, 'kind', '?')}>", None
            n7 += 1
            want7 = f"DECIMAL({val7[0]},{val7[1]})"
            if n7 <= 3 or -1 in (w7, s7):
                rep.instance("R30.7", f"type/{w7}/{s7}", nontrivial=True, sample={"width_setting": w7, "scale_setting": s7, "in_effect": list(val7), "column_type": ty7})
            if (str(ty7).replace(" ", "") != want7 or (cfg7 is not None and tuple(cfg7) != tuple(val7))) and shown7 < 3:
                shown7 += 1
                rep.add(Finding("R30.7", f"R30.7/type/{w7}/{s7}", fgt.module.rel, fgt.node.lineno, fgt.qualname,
                                f"with width setting {w7 if w7 is not None else '<unset>'} and scale setting {s7 if s7 is not None else '<unset>'} (accepted: in effect {val7}) the Number column type is "
                                f"{ty7!r}, expected {want7!r} (get_decimal_config reports {cfg7}): Number values are then stored and added in another type than the configuration states - with "
                                f"DOUBLE, 0.1 + 0.2 returns 0.30000000000000004 and values that do not fit the DECIMAL are accepted"))
    rep.floor("R30.7 accepted settings evaluated", n7, 30)
    # ---- R30.8: every connection re-reads and re-validates the settings ----
    rep.rule("R30.8", "configure_duckdb_connection reaches set_decimal_config() on every normal path, and no function of the configuration module keeps a process-global besides the "
                      "reviewed DECIMAL_WIDTH / DECIMAL_SCALE: a remembered 'already handled' marker lets a rejected setting pass the second time")
    from sa.cfg import CFG as _CFG8
    fcc = P.func(f"{CFGMOD}.configure_duckdb_connection")
    g8 = _CFG8(fcc.node)
    must8 = [n for n in g8.nodes if any(isinstance(c, ast.Call) and (getattr(c.func, "id", "") or getattr(c.func, "attr", "")) == "set_decimal_config" for c in g8.calls_at(n))]
    rep.instance("R30.8", "configure/set_decimal_config-on-every-path", nontrivial=True, sample={"call_sites": len(must8)})
    p8 = g8.path_avoiding(g8.entry, lambda n: n is g8.exit, lambda n: n in must8, follow_exc=False)
    if not must8:
        raise AnalysisError("configure_duckdb_connection no longer calls set_decimal_config() anywhere (anchor changed: where are the settings read and validated now?)")
    if p8 is not None:
        from sa.cfg import describe_path as _dp8
        rep.add(Finding("R30.8", "R30.8/configure/set_decimal_config-on-every-path", fcc.module.rel, fcc.node.lineno, fcc.qualname,
                        "configure_duckdb_connection can configure a connection without calling set_decimal_config(): the settings of this run are then neither read nor validated - an "
                        "out-of-range setting repeated in the same process is accepted and Numbers are stored in the DECIMAL type of an earlier run", _dp8(p8) if p8 else None))
    from sa import globalsx as _gx8
    _gx8.report_written_globals(P, rep, "R30.8", (CFGMOD,), "the outcome of a setting then depends on the settings of earlier runs in the same process")
    rep.assumptions = ["DuckDB typing rule DECIMAL(w,s) requires s ≤ w ≤ 38 (external fact)",
                       "os.getenv / os.environ.get modelled as a mapping lookup returning the string value or the default"]


def _in_docstring(n: ast.Constant) -> bool:
    p = getattr(n, "_parent", None)
    return isinstance(p, ast.Expr)


BINARY_FLOATS = ("FLOAT", "DOUBLE", "REAL", "FLOAT4", "FLOAT8")


def _number_load_paths(P: Program, rep: Report) -> None:
    from sa import structmodel as sm
    from sa.e6 import ClassVal, Unmodelled
    IO = "vtlengine.duckdb_transpiler.io"
    number = ClassVal("vtlengine.DataTypes.Number")
    comp = sm.MComp("Me_1", "Measure", number, True)
    # CSV: the type the reader is told to parse the field as
    g = P.func(f"{IO}._validation.get_csv_read_type")
    it = Interp(P, externals={"get_decimal_type": lambda: "DECIMAL(⟦w⟧,⟦s⟧)"})
    try:
        t = it.call(g, {"comp": comp})
    except Unmodelled as e:
        raise AnalysisError(f"R30.5: get_csv_read_type outside the evaluator's language: {e}")
    rep.instance("R30.5", "csv/read-type", sample={"Number is read as": t})
    if str(t).upper().split("(")[0] in BINARY_FLOATS:
        rep.add(Finding("R30.5", "R30.5/csv/read-type", g.module.rel, g.node.lineno, g.qualname,
                        f"a Number CSV field is parsed as {t} and cast to the DECIMAL column afterwards: the decimal text goes through a binary float, whose DECIMAL cast stores its binary "
                        f"expansion (digits beyond the 15-17 significant ones of the double) instead of the value written in the file"))
    # DataFrame / parquet
    f = P.func(f"{IO}._io._build_dataframe_select_columns")
    n = 0
    for st in ("DOUBLE", "FLOAT", "REAL", "BIGINT", "INTEGER", "VARCHAR", "DECIMAL(18,3)", "HUGEINT"):
        it = Interp(P, externals={"get_column_sql_type": lambda c: "DECIMAL(⟦w⟧,⟦s⟧)"})
        try:
            exprs = it.call(f, {"components": {"Me_1": comp}, "df_columns": ["Me_1"], "type_overrides": None, "source_types": {"Me_1": st}})
        except Unmodelled as e:
            raise AnalysisError(f"R30.5: _build_dataframe_select_columns outside the evaluator's language: {e}")
        n += 1
        e0 = exprs[0] if exprs else ""
        rep.instance("R30.5", f"dataframe/{st}", sample={"select": e0})
        m = re.fullmatch(r'CAST\((.+) AS DECIMAL\(⟦w⟧,⟦s⟧\)\) AS "Me_1"', e0.strip())
        if not m:
            rep.add(Finding("R30.5", f"R30.5/dataframe/{st}/shape", f.module.rel, f.node.lineno, f.qualname,
                            f"a Number column of source type {st} is selected as `{e0}`: not a cast to the configured decimal type"))
            continue
        inner = m.group(1).strip()
        via_text = re.fullmatch(r'CAST\("Me_1" AS VARCHAR\)', inner) is not None
        if st in BINARY_FLOATS and not via_text:
            rep.add(Finding("R30.5", f"R30.5/dataframe/{st}", f.module.rel, f.node.lineno, f.qualname,
                            f"a Number column of source type {st} is loaded with `{e0}`: DuckDB's {st} -> DECIMAL cast stores the binary expansion of the float once |x|*10^scale exceeds 2^53 "
                            f"(2904078.757 becomes 2904078.7570000004 at scale 10); the cast must go through the value's text (CAST(col AS VARCHAR)) as the CSV path does"))
    rep.floor("R30.5 source types evaluated", n, 8)
