"""C14 - writing results to an output folder preserves them exactly (DESIGN §3 C14).

R14.1 one SELECT feeds both sinks: in fetch_result the query executed for the in-memory DataFrame and the query passed to
      save_datapoints_duckdb are the same single-definition value; save_datapoints_duckdb copies `(select_sql)` for every
      output format, into `<dataset>.<format>` with the FORMAT matching the extension (decision table over format × select)
R14.2 with an output folder no in-memory data is attached to the returned dataset; apply_time_period_representation runs
      before both sinks
R14.3 the scalar file receives exactly the returned Scalar values (filter over `results`), only when a folder is given
Not decided: equality of Python post-formatting of in-memory results with the SQL-formatted file values (runtime).
"""
from __future__ import annotations

import ast
from typing import Any, Dict, List, Optional

from sa.cfg import CFG, describe_path
from sa.core import AnalysisError, Finding, Program, Report, program, src, walk_no_nested
from sa.e6 import ExternalObj, Interp, Raised

EXEC = "vtlengine.duckdb_transpiler.io._execution"
IO = "vtlengine.duckdb_transpiler.io._io"


def _callee_name(c: ast.Call) -> str:
    return c.func.id if isinstance(c.func, ast.Name) else (c.func.attr if isinstance(c.func, ast.Attribute) else "")


class FakePath:
    def __init__(self, s: str) -> None:
        self.s = s

    def __truediv__(self, other: Any) -> "FakePath":
        return FakePath(self.s + "/" + str(other))

    def __str__(self) -> str:
        return self.s


def run(rep: Report, tier: str) -> None:
    P = program()
    rep.explanation = ("def-use of the fetch query in fetch_result, CFG dominance of the representation step, decision-table "
                       "evaluation of save_datapoints_duckdb over (format × select_sql), and shape of the scalar-file filter.")
    rep.rule("R14.1", "the same SELECT feeds DataFrame and file; COPY source/extension/FORMAT decision table")
    rep.rule("R14.2", "no in-memory data on the file path; time-period representation applied before both sinks")
    rep.rule("R14.3", "scalar file = Scalar values of `results`, written only with an output folder")
    fr = P.func(f"{EXEC}.fetch_result")
    g = CFG(fr.node)
    saves = [(n, c) for n in g.nodes for c in g.calls_at(n) if _callee_name(c) == "save_datapoints_duckdb"]
    fetches = [(n, c) for n in g.nodes for c in g.calls_at(n) if _callee_name(c) == "fetchdf" and n.kind == "stmt"
               and isinstance(n.stmt, ast.Assign) and src(n.stmt.targets[0]).endswith(".data")]
    if len(saves) != 1 or len(fetches) != 1:
        raise AnalysisError(f"fetch_result: expected one save_datapoints_duckdb and one `<ds>.data = ….fetchdf()` site, found {len(saves)}/{len(fetches)}")
    sn, sc = saves[0]
    fn_, fc = fetches[0]
    kw = {k.arg: k.value for k in sc.keywords}
    sel = kw.get("select_sql")
    exe = fc.func.value  # conn.execute(X)
    exe_arg = exe.args[0] if isinstance(exe, ast.Call) and exe.args else None
    rep.instance("R14.1", "same-query", nontrivial=True, sample={"file_sink": src(sel) if sel is not None else None, "memory_sink": src(exe_arg) if exe_arg is not None else None})
    same = isinstance(sel, ast.Name) and isinstance(exe_arg, ast.Name) and sel.id == exe_arg.id
    if same:
        defs = [n for n in walk_no_nested(fr.node) if isinstance(n, (ast.Assign, ast.AugAssign, ast.AnnAssign)) and any(
            isinstance(t, ast.Name) and t.id == sel.id for t in (n.targets if isinstance(n, ast.Assign) else [n.target]))]
        same = len(defs) == 1 and isinstance(defs[0], ast.Assign)
        if same:
            # the single definition dominates both sinks
            dn = [n for n in g.nodes if n.stmt is defs[0]]
            for sink in (sn, fn_):
                if g.path_avoiding(g.entry, lambda n, sink=sink: n is sink, lambda n: n in dn, follow_exc=False) is not None:
                    same = False
    if not same:
        rep.add(Finding("R14.1", "R14.1/same-query", fr.module.rel, sn.lineno, fr.qualname,
                        f"file sink uses select_sql={src(sel) if sel is not None else None} and the DataFrame sink executes "
                        f"{src(exe_arg) if exe_arg is not None else None}: both must be the one fetch query (single definition reaching both)"))
    for a_name in ("output_format",):
        v = kw.get(a_name)
        rep.instance("R14.1", f"forward/{a_name}", nontrivial=True)
        if not (isinstance(v, ast.Name) and v.id == a_name):
            rep.add(Finding("R14.1", f"R14.1/forward/{a_name}", fr.module.rel, sc.lineno, fr.qualname,
                            f"save_datapoints_duckdb is not given the caller's {a_name}"))
    # decision table of save_datapoints_duckdb
    sv = P.func(f"{IO}.save_datapoints_duckdb")
    import pathlib as _pl
    for fmt, dsname in (("csv", "DS_r"), ("parquet", "DS_r"), ("csv", "RES.A"), ("parquet", "RES.A")):  # VTL identifiers may contain dots
        for select in ("SELECT 1 AS x", None):
            for delete in (False, True):
                executed: List[str] = []
                it = Interp(P, externals={"Path": lambda *a: _pl.PurePosixPath(*[str(x) for x in a])})
                conn = ExternalObj({"execute": lambda q, executed=executed: executed.append(q)})
                try:
                    it.call(sv, {"conn": conn, "dataset_name": dsname, "output_path": FakePath("/out"), "delete_after_save": delete,
                                 "select_sql": select, "output_format": fmt})
                except Raised as r:
                    rep.add(Finding("R14.1", f"R14.1/save-raises/{fmt}", sv.module.rel, sv.node.lineno, sv.qualname,
                                    f"save_datapoints_duckdb raises {r.exc} for output_format={fmt!r}"))
                    continue
                key = f"save/{fmt}/{dsname}/{'select' if select else 'table'}/{'delete' if delete else 'keep'}"
                copies = [q for q in executed if q.lstrip().upper().startswith("COPY")]
                drops = [q for q in executed if q.lstrip().upper().startswith("DROP")]
                rep.instance("R14.1", key, nontrivial=True, sample={"case": key, "sql": executed})
                want_src = f"({select})" if select else f'"{dsname}"'
                ok = len(copies) == 1 and copies[0].split(" TO ")[0].strip() == f"COPY {want_src}" \
                    and f"'/out/{dsname}.{fmt}'" in copies[0] \
                    and (("PARQUET" in copies[0].upper()) == (fmt == "parquet")) \
                    and (fmt != "csv" or "HEADER" in copies[0].upper())
                if not ok:
                    rep.add(Finding("R14.1", f"R14.1/{key}", sv.module.rel, sv.node.lineno, sv.qualname,
                                    f"for output_format={fmt!r}, select_sql={select!r} the COPY statement is {copies}: expected "
                                    f"`COPY {want_src} TO '<folder>/{dsname}.{fmt}'` with the matching FORMAT (one file per dataset, named after the dataset)"))
                if bool(drops) != delete:
                    rep.add(Finding("R14.1", f"R14.1/drop/{key}", sv.module.rel, sv.node.lineno, sv.qualname,
                                    f"delete_after_save={delete} but DROP statements executed: {drops}"))

    # ---- R14.2 ---------------------------------------------------------------------------------------------
    applies = [n for n in g.nodes if any(_callee_name(c) == "apply_time_period_representation" for c in g.calls_at(n))]
    rep.instance("R14.2", "representation-before-sinks", nontrivial=True, sample={"apply_sites": [n.lineno for n in applies]})
    if not applies:
        raise AnalysisError("fetch_result: apply_time_period_representation call not found")
    for sink, nm in ((sn, "file"), (fn_, "DataFrame")):
        p = g.path_avoiding(g.entry, lambda n, sink=sink: n is sink, lambda n: n in applies, follow_exc=False)
        if p is not None:
            rep.add(Finding("R14.2", f"R14.2/representation-before-{nm}", fr.module.rel, sink.lineno, fr.qualname,
                            f"the {nm} sink is reachable without apply_time_period_representation", describe_path(p)))
    # the file branch and the data branch are the two arms of one `if output_folder`
    par_s = getattr(sn.stmt, "_parent", None)
    rep.instance("R14.2", "no-data-on-file-path", nontrivial=True)
    ok = isinstance(par_s, ast.If) and src(par_s.test) == "output_folder" and sn.stmt in par_s.body and fn_.stmt in par_s.orelse
    if ok:
        ok = not any(isinstance(x, ast.Assign) and any(src(t).endswith(".data") for t in x.targets) for st in par_s.body for x in ast.walk(st))
    if not ok:
        rep.add(Finding("R14.2", "R14.2/no-data-on-file-path", fr.module.rel, sn.lineno, fr.qualname,
                        "with an output folder the dataset must be written to the file and returned without in-memory data: the save and "
                        "the `.data = …fetchdf()` must be the two arms of `if output_folder:`"))
    # after the file save no path assigns .data before returning
    data_assigns = [n for n in g.nodes if n.kind == "stmt" and isinstance(n.stmt, ast.Assign) and any(src(t).endswith(".data") for t in n.stmt.targets)]
    p = g.path_avoiding(sn, lambda n: n in data_assigns, lambda n: False, follow_exc=False)
    if p is not None:
        rep.add(Finding("R14.2", "R14.2/data-after-save", fr.module.rel, p[-1].lineno, fr.qualname,
                        "in-memory data is attached after the result was written to the output folder", describe_path(p)))

    # ---- R14.3 ---------------------------------------------------------------------------------------------
    eq = P.func(f"{EXEC}.execute_queries")
    calls = [c for c in walk_no_nested(eq.node) if isinstance(c, ast.Call) and _callee_name(c) == "save_scalars_duckdb"]
    if len(calls) != 1:
        raise AnalysisError("execute_queries: save_scalars_duckdb call not found")
    c = calls[0]
    arg = c.args[0] if c.args else {k.arg: k.value for k in c.keywords}.get("scalars")
    val = arg
    if isinstance(arg, ast.Name):
        defs = [n.value for n in walk_no_nested(eq.node) if isinstance(n, ast.Assign) and any(isinstance(t, ast.Name) and t.id == arg.id for t in n.targets)]
        val = defs[0] if len(defs) == 1 else None
    rep.instance("R14.3", "scalar-source", nontrivial=True, sample={"argument": src(arg) if arg is not None else None, "definition": src(val) if val is not None else None})
    ok = val is not None
    if ok:
        bound = {x.id for x in ast.walk(val) if isinstance(x, ast.Name) and isinstance(x.ctx, ast.Store)}
        free = {x.id for x in ast.walk(val) if isinstance(x, ast.Name) and isinstance(x.ctx, ast.Load)} - bound
        # data source must be `results` only, restricted by an isinstance(…, Scalar) test
        rets_ = {r.value.id for r in walk_no_nested(eq.node) if isinstance(r, ast.Return) and isinstance(r.value, ast.Name)}
        if len(rets_) != 1:
            raise AnalysisError("execute_queries: the returned results dict is not a single local")
        res_name = next(iter(rets_))
        ok = res_name in free and free <= {res_name, "Scalar", "isinstance", "dict", "Dataset"} and any(
            isinstance(x, ast.Call) and _callee_name(x) == "isinstance" and src(x.args[1]).endswith("Scalar") for x in ast.walk(val))
    if not ok:
        rep.add(Finding("R14.3", "R14.3/scalar-source", eq.module.rel, c.lineno, eq.qualname,
                        f"the scalar file is written from {src(val) if val is not None else src(arg) if arg is not None else '?'}: it must hold exactly the "
                        f"returned scalars, i.e. {{k: v for k, v in results.items() if isinstance(v, Scalar)}}"))
    par = getattr(getattr(c, "_parent", None), "_parent", None)
    rep.instance("R14.3", "scalar-guard", nontrivial=True)
    if not (isinstance(par, ast.If) and src(par.test) == "output_folder"):
        rep.add(Finding("R14.3", "R14.3/scalar-guard", eq.module.rel, c.lineno, eq.qualname, "scalar file must be written iff an output folder is given"))
    fld = c.args[1] if len(c.args) > 1 else {k.arg: k.value for k in c.keywords}.get("output_path")
    if not (isinstance(fld, ast.Name) and fld.id == "output_folder"):
        rep.add(Finding("R14.3", "R14.3/scalar-folder", eq.module.rel, c.lineno, eq.qualname, "scalar file not written to the caller's output_folder"))
    # save_scalars_duckdb writes one row per entry with the value as text - absence (None) is the only empty field (function evaluated)
    ss = P.func(f"{IO}.save_scalars_duckdb")
    from sa.e6 import ExternalObj as _EO, Interp as _I, Raised as _Ra, Unmodelled as _Un
    rows: List[Any] = []

    class _W:
        def writerow(self, r: Any) -> None:
            rows.append(list(r))

        def writerows(self, rs: Any) -> None:
            rows.extend(list(r) for r in rs)

    class _F:
        def __enter__(self) -> "_F":
            return self

        def __exit__(self, *a: Any) -> bool:
            return False

        def write(self, t: str) -> None:
            rows.append(["<raw>", t])

    class _P:
        def __init__(self, p: str) -> None:
            self.p = p

        def __truediv__(self, o: str) -> "_P":
            return _P(self.p + "/" + str(o))
    vals = {"sc_zero": 0, "sc_fzero": 0.0, "sc_false": False, "sc_empty": "", "sc_null": None, "sc_text": "x", "sc_seven": 7}
    model = {k: _EO({"name": k, "value": v, "data_type": None}) for k, v in vals.items()}
    try:
        _I(P, externals={"open": lambda *a, **k: _F(), "csv.writer": lambda f, **k: _W(), "Path": lambda x: _P(str(x)), "isinstance": lambda o, t: isinstance(o, str)}).call(
            ss, {"scalars": model, "output_path": "/out"})
        evaluated = True
    except (_Un, _Ra) as e:
        evaluated = False
        why = str(e)
    rep.instance("R14.3", "scalar-writer", nontrivial=True, sample={"rows": rows[:9]})
    if not evaluated:
        # a writer the evaluator cannot follow (e.g. through a scratch database): fall back to the structural clause
        loops = [n for n in walk_no_nested(ss.node) if isinstance(n, ast.For) and any(isinstance(x, ast.Name) and x.id == "scalars" for x in ast.walk(n.iter))]
        if not loops or not any(isinstance(x, ast.Call) and _callee_name(x) == "writerow" for x in ast.walk(loops[0])) or \
                any(isinstance(x, (ast.Continue, ast.Break)) for x in ast.walk(loops[0])):
            rep.add(Finding("R14.3", "R14.3/scalar-writer", ss.module.rel, ss.node.lineno, ss.qualname,
                            f"save_scalars_duckdb must write one row per entry of its argument (no skipping); not evaluable: {why[:80]}"))
    else:
        got = {r[0]: r[1] for r in rows if len(r) == 2 and r[0] in vals}
        want = {k: ("" if v is None else str(v)) for k, v in vals.items()}
        if got != want:
            bad = {k: (got.get(k, "<row missing>"), want[k]) for k in want if got.get(k, "<row missing>") != want[k]}
            rep.add(Finding("R14.3", "R14.3/scalar-writer", ss.module.rel, ss.node.lineno, ss.qualname,
                            f"_scalars.csv rows written for the scalars {vals}: (written, expected) differs for {bad}: every returned scalar gets one row holding its value as text; "
                            f"only a null scalar is an empty field (0, 0.0, false and the empty string are values)"))
    # ---- R14.4 the output folder reaches every result fetch unchanged ----
    rep.rule("R14.4", "inside the execution modules the output folder is threaded unchanged: a function that has an `output_folder` parameter passes that parameter itself "
                      "(no condition, no None) to every callee that takes one - whether a returned dataset is written does not depend on which statement produced it")
    n4 = 0
    for f in P.iter_functions():
        if not f.qualname.startswith("vtlengine.duckdb_transpiler.io.") or "output_folder" not in f.params:
            continue
        cond_stores = [n for n in walk_no_nested(f.node) if isinstance(n, ast.Name) and n.id == "output_folder" and isinstance(n.ctx, ast.Store)]
        for c in walk_no_nested(f.node):
            if not isinstance(c, ast.Call):
                continue
            for t in P.resolve_call(f, c):
                try:
                    callee = P.func(t)
                except KeyError:
                    continue
                if "output_folder" not in callee.params:
                    continue
                arg = next((k.value for k in c.keywords if k.arg == "output_folder"), None)
                if arg is None:
                    cps = [x for x in callee.params if x not in ("self", "cls")]
                    i = cps.index("output_folder")
                    arg = c.args[i] if i < len(c.args) and not any(isinstance(a, ast.Starred) for a in c.args) else None
                n4 += 1
                rep.instance("R14.4", f"{f.qualname}->{callee.name}@{src(arg) if arg is not None else '<default>'}", nontrivial=True, sample={"caller": f.qualname, "callee": callee.qualname, "argument": src(arg) if arg is not None else None})
                ok = isinstance(arg, ast.Name) and arg.id == "output_folder" and not cond_stores
                if not ok:
                    rep.add(Finding("R14.4", f"R14.4/{f.qualname}->{callee.name}", f.module.rel, c.lineno, f.qualname,
                                    f"{callee.name}() is given output_folder={src(arg) if arg is not None else '<its default>'}"
                                    f"{' (output_folder is re-assigned in this function)' if cond_stores and isinstance(arg, ast.Name) else ''}, not the folder run() was called with: "
                                    f"a returned dataset for which the folder is withheld is handed back with in-memory data and no file is written for it"))
    rep.floor("R14.4 output-folder hand-overs", n4, 3)
    # ---- R14.5 the structures run() loads carry no data ----
    rep.rule("R14.5", "the loader run() takes its input structures from attaches no data to them (no `.data` store, every Dataset(...) built with data=None, in everything reachable "
                      "from it): a statement that returns an input dataset as it is would otherwise carry that frame next to the file written for it")
    from sa.callgraph import callgraph as _cg14
    frun = P.func("vtlengine.API.run")
    loaders: List[str] = []
    for st in walk_no_nested(frun.node):
        if isinstance(st, ast.Assign) and isinstance(st.value, ast.Call) and isinstance(st.targets[0], ast.Tuple) and st.targets[0].elts and isinstance(st.targets[0].elts[0], ast.Name):
            first = st.targets[0].elts[0].id
            feeds = any(isinstance(c, ast.Call) and _callee_name(c) in ("InterpreterAnalyzer", "SQLTranspiler")
                        and any(isinstance(x, ast.Name) and x.id == first for k in c.keywords + [ast.keyword(arg=None, value=a) for a in c.args] for x in ast.walk(k.value))
                        for c in walk_no_nested(frun.node))
            if feeds:
                loaders += P.resolve_call(frun, st.value)
    if not loaders:
        raise AnalysisError("run(): the call that loads the input structures handed to the interpreter / transpiler not found (anchor changed)")
    reach = _cg14(P).reachable_from(loaders)
    n5 = 0
    for q in sorted(reach):
        try:
            f5 = P.func(q)
        except KeyError:
            continue
        if not q.startswith("vtlengine."):
            continue
        n5 += 1
        for n in walk_no_nested(f5.node):
            what = None
            if isinstance(n, (ast.Assign, ast.AnnAssign, ast.AugAssign)):
                for t in (n.targets if isinstance(n, ast.Assign) else [n.target]):
                    if isinstance(t, ast.Attribute) and t.attr == "data" and not (isinstance(n.value, ast.Constant) and n.value.value is None):
                        what = f"`{src(n)[:80]}` attaches data"
            if isinstance(n, ast.Call) and _callee_name(n) == "Dataset":
                d = next((k.value for k in n.keywords if k.arg == "data"), n.args[2] if len(n.args) > 2 else None)
                rep.instance("R14.5", f"ctor/{q}", nontrivial=True, sample={"in": q, "data": src(d) if d is not None else None})
                if d is not None and not (isinstance(d, ast.Constant) and d.value is None):
                    what = f"`{src(n)[:80]}` builds the dataset with data"
            if what:
                rep.add(Finding("R14.5", f"R14.5/{q}", f5.module.rel, n.lineno, q,
                                f"{what} on the path run() loads its input STRUCTURES through ({' / '.join(x.split('.')[-1] for x in loaders)}): `DS_r <- DS_1;` with an output folder returns "
                                f"DS_r carrying that frame (the interpreter copies the input dataset shallowly) next to the file holding the real datapoints"))
    rep.instance("R14.5", "reachable-from-loader", sample={"loader": loaders, "functions": n5})
    rep.floor("R14.5 functions reachable from the structure loader", n5, 5)
    # ---- R14.6 the representation step converts every Time_Period value before the file is written (shared with C04 R04.12) ----
    rep.rule("R14.7", "a DATE column of a result is rendered to text inside the one SELECT that feeds the DataFrame fetch, the CSV and the Parquet file (evaluated "
                      "_build_dataset_fetch_select): the three sinks receive the same values")
    _date_columns_as_text(P, rep, "R14.7")
    rep.rule("R14.6", "apply_time_period_representation (run on the table before COPY ... TO) selects every row in which ANY Time_Period column is not null: a skipped row keeps the "
                      "internal form in the file while the in-memory result is formatted again in pandas")
    from sa.checks.c04 import representation_row_filter as _rrf
    _rrf(P, rep, "R14.6")
    rep.analysed = {"fetch_result_nodes": len(g.nodes)}
    rep.assumptions = ["DuckDB COPY (query) TO file writes exactly the rows/columns of the query",
                       "Dataset objects coming from semantic analysis carry data=None"]


def _date_columns_as_text(P: Program, rep: Report, rule: str) -> None:
    """_build_dataset_fetch_select evaluated for a result whose table has a DATE column: the one SELECT feeds the DataFrame fetch, the CSV and the
    Parquet file; a bare DATE column reaches the DataFrame as datetime64 and Parquet as a DATE while CSV shows text - the three no longer hold
    the same values.  The column must be rendered to text in the SELECT (strftime / CAST AS VARCHAR)."""
    import re as _re
    from sa.e6 import ExternalObj, Interp, Raised, Unmodelled
    fs = P.func("vtlengine.duckdb_transpiler.io._execution._build_dataset_fetch_select")

    class _Rel:
        def __init__(self, description=None, row=None):
            self.description, self._row = description, row

        def fetchone(self):
            return self._row

        def fetchall(self):
            return [self._row] if self._row is not None else []

    class _Conn:
        def execute(self, q, *a):
            if "LIMIT 0" in q.upper():
                return _Rel(description=[("Id_1", "BIGINT"), ("D", "DATE"), ("S", "VARCHAR")])
            return _Rel(row=None)
    dsm = ExternalObj({"components": {"Id_1": None, "D": None, "S": None}, "name": "DS_r"})
    try:
        sel = " ".join(str(Interp(P).call(fs, {"conn": _Conn(), "result_name": "DS_r", "ds": dsm})).split())
    except (Unmodelled, Raised) as e:
        raise AnalysisError(f"{rule}: _build_dataset_fetch_select outside the evaluator's language: {e}")
    m = _re.match(r"SELECT (.*) FROM \"DS_r\"$", sel)
    if not m:
        raise AnalysisError(f"{rule}: fetch SELECT form not recognised: `{sel[:160]}`")
    items, depth, cur = [], 0, ""
    for ch in m.group(1):
        depth += ch == "("
        depth -= ch == ")"
        if ch == "," and depth == 0:
            items.append(cur.strip())
            cur = ""
        else:
            cur += ch
    items.append(cur.strip())
    item = next((i for i in items if _re.search(r'(AS\s+)?"D"$', i)), None)
    rep.instance(rule, "date-column-select-item", nontrivial=True, sample={"select": sel[:200], "item": item})
    if item is None:
        raise AnalysisError(f"{rule}: no select item for the DATE column in `{sel[:160]}`")
    if not _re.search(r"strftime\s*\(|AS\s+(VARCHAR|TEXT|STRING)\s*\)|::\s*(VARCHAR|TEXT)", item, _re.I):
        rep.add(Finding(rule, f"{rule}/date-column", fs.module.rel, fs.node.lineno, fs.qualname,
                        f"a DATE column is selected as `{item}` (no rendering to text): the same SELECT feeds the in-memory fetch (datetime64 values), the CSV file (text "
                        f"'YYYY-MM-DD') and the Parquet file (DATE type) - the written result and the returned one no longer hold the same values"))
