"""C15 - results are deterministic and independent of engine configuration (DESIGN §3 C15).

R15.1 no order-sensitive SQL construct without a total ORDER BY (lint over every SQL skeleton and macro body; see
      sa/orderlint.py for the construct list) - under the checked premise that the engine runs with
      preserve_insertion_order=false and an environment-chosen thread count
R15.2 results are fetched with a complete-fetch API (fetchdf/df/fetchall/arrow); chunked or partial fetch APIs
      (fetch_df_chunk, fetchmany, fetch_record_batch, fetchone in a loop) are not used to build results
R15.3 the analytic OVER-clause builder emits ORDER BY exactly when the VTL node has an order_by (so holes filled by it are
      as ordered as the script says)
Not decided: floating-point summation order effects; behaviour under memory-limit spills.
"""
from __future__ import annotations

import ast
from typing import Dict, List

from sa import orderlint, sqlx
from sa.core import AnalysisError, Finding, Program, Report, program, src, walk_no_nested

PARTIAL_FETCH = {"fetch_df_chunk", "fetchmany", "fetch_record_batch", "fetch_arrow_reader", "fetchnumpy_chunk"}


def report_issues(rep: Report, rule: str, issues: List[orderlint.OrderIssue], only_kinds=None) -> None:
    for i in issues:
        if only_kinds and i.kind not in only_kinds:
            continue
        ex = [k for k in orderlint.EXEMPT if k[0] == i.where and k[1] == i.kind and i.construct.startswith(k[2])]
        key = f"{rule}/{i.kind}/{i.where}/{i.construct[:50]}"
        rep.instance(rule, f"{i.kind}/{i.where}/{i.construct[:40]}", nontrivial=True,
                     sample={"kind": i.kind, "construct": i.construct, "where": i.where, "site": f"{i.file}:{i.line}"})
        if ex:
            rep.exemption(rule, f"{i.where}/{i.kind}/{ex[0][2]}", orderlint.EXEMPT[ex[0]])
            continue
        rep.add(Finding(rule, key, i.file, i.line, i.where,
                        f"order-dependent SQL ({i.kind}): `{i.construct}` — its value depends on a row order the query does not fix "
                        f"(engine runs with preserve_insertion_order=false); snippet: …{i.snippet.strip()[:120]}…"))


def run(rep: Report, tier: str) -> None:
    P = program()
    rep.explanation = ("Every SQL text the engine can emit (string constants and f-string skeletons of the transpiler, loaders, viral "
                       "propagation, plus the .sql macro libraries) is tokenised and scanned for constructs whose value depends on "
                       "row order (windows without ORDER BY, order-sensitive aggregates, LIMIT, DISTINCT ON, nondeterministic functions).")
    rep.rule("R15.1", "no order-sensitive SQL construct without ORDER BY")
    rep.rule("R15.2", "results fetched with a complete-fetch API")
    rep.rule("R15.3", "_build_over_clause emits ORDER BY iff node.order_by")
    prem = orderlint.premise(P)
    issues, stats = orderlint.lint_program(P)
    rep.floor("SQL skeletons scanned", stats["skeletons"], 150)
    rep.floor("OVER clauses scanned", stats["over_clauses"], 8)
    # every scanned OVER clause is an evaluated instance (most hold)
    for sk in sqlx.iter_skeletons(P):
        if "OVER" in sk.text.upper():
            rep.instance("R15.1", f"over/{sk.where}:{sk.line}", nontrivial=True)
    report_issues(rep, "R15.1", issues)

    # ---- R15.2 --------------------------------------------------------------------------------------------
    nfetch = 0
    for f in P.iter_functions():
        if not f.module.name.startswith("vtlengine.duckdb_transpiler"):
            continue
        for n in walk_no_nested(f.node):
            if isinstance(n, ast.Call) and isinstance(n.func, ast.Attribute):
                if n.func.attr in ("fetchdf", "df", "fetchall", "fetch_arrow_table", "arrow", "fetchone", "pl") and "execute" in src(n.func.value) or \
                        n.func.attr in PARTIAL_FETCH:
                    nfetch += 1
                    rep.instance("R15.2", f"{f.qualname}:{n.func.attr}", nontrivial=True, sample={"site": f"{f.module.rel}:{n.lineno}", "api": n.func.attr})
                    if n.func.attr in PARTIAL_FETCH:
                        rep.add(Finding("R15.2", f"R15.2/{f.qualname}/{n.func.attr}", f.module.rel, n.lineno, f.qualname,
                                        f"`.{n.func.attr}()` fetches a result in chunks whose sizes depend on how the table was written "
                                        f"(thread count, row groups): a loop over it can stop early and drop datapoints"))
    rep.floor("result fetch sites", nfetch, 3)

    # ---- R15.3 --------------------------------------------------------------------------------------------
    from sa.checks import c06
    c06.over_clause_rules(P, rep, "R15.3")
    # ---- R15.4: additive aggregates accumulate exactly (no cast to a binary floating type inside SUM/AVG) ----
    rep.rule("R15.4", "SUM/AVG templates do not cast their argument to DOUBLE/FLOAT/REAL (float addition is not associative: per-thread partial sums make the result depend on the schedule)")
    exact_accumulation(P, rep, "R15.4")
    rep.analysed = dict(stats, premise=prem)
    # ---- R15.5 a VTL range window is emitted as RANGE: rows that tie on the ORDER BY key are peers, not a sequence in physical order ----
    rep.rule("R15.5", "window frames: `range` -> RANGE and `data points` -> ROWS with the same offsets, for every frame shape (ties under ROWS follow the physical / thread-dependent order)")
    from sa.checks.c06 import window_frames
    window_frames(P, rep, "R15.5")
    # ---- R15.6 no sampled / randomised SQL decides what is done to the data ----
    rep.rule("R15.6", "no SAMPLE / TABLESAMPLE / random() in SQL the engine emits (a sampled probe gives a different answer from run to run)")
    n6 = 0
    for sk in sqlx.iter_skeletons(P):
        toks = [t.up for t in sqlx.tokenize(sk.text)]
        n6 += 1
        hit = None
        for i_, t_ in enumerate(toks):
            if t_ in ("TABLESAMPLE",) or (t_ == "SAMPLE" and i_ > 0 and toks[i_ - 1] == "USING"):
                hit = "USING SAMPLE / TABLESAMPLE"
            if t_ in ("RANDOM", "UUID", "GEN_RANDOM_UUID") and i_ + 1 < len(toks) and toks[i_ + 1] == "(":
                hit = f"{t_}()"
        if hit and "REPEATABLE" not in toks:
            rep.add(Finding("R15.6", f"R15.6/sampled/{sk.where}", sk.module.rel, sk.line, sk.where,
                            f"`{' '.join(sk.text.split())[:110]}` uses {hit}: DuckDB seeds it randomly, so what the engine does next (here: whether a column is normalised) differs from run "
                            f"to run and with the number of threads, for the same input"))
    rep.instance("R15.6", "sql-skeletons-scanned", nontrivial=False, sample={"skeletons": n6})
    # ---- R15.7: the SQL generated for a script is a function of the script alone (shared with C17 R17.2) ----
    rep.rule("R15.7", "no function of the transpiler or the viral-propagation SQL writers writes a process-global: generated SQL cached across runs makes a result depend on "
                      "which scripts ran earlier in the process, not on the engine configuration")
    from sa import globalsx as _gx7
    _gx7.report_written_globals(P, rep, "R15.7", ("vtlengine.duckdb_transpiler.Transpiler", "vtlengine.ViralPropagation", "vtlengine.duckdb_transpiler.sql"),
                                "the SQL generated for a script then depends on the scripts transpiled before it")
    rep.assumptions = ["DuckDB evaluates window functions / aggregates with ORDER BY deterministically when the order is total",
                       "preserve_insertion_order=false: no operator output order may be relied upon (premise read from the source)"]


def exact_accumulation(P: Program, rep: Report, rule: str) -> None:
    """SUM / AVG templates of the operator registry accumulate the operand in its exact (DECIMAL / BIGINT) type.  Shared with C33: float
    addition is not associative, so over DOUBLE the result also depends on the physical order of the rows."""
    import re as _re
    from sa import registryx as _rx
    n154 = 0
    for e_ in _rx.extract(P):
        for tpl in e_.templates.values():
            m_ = _re.search(r"\b(SUM|AVG)\s*\((.*)\)", tpl, _re.I)
            if not m_:
                continue
            n154 += 1
            rep.instance(rule, f"template/{e_.token}", nontrivial=True, sample=tpl)
            if _re.search(r"\bAS\s+(DOUBLE|FLOAT|REAL|FLOAT4|FLOAT8)\b|::\s*(DOUBLE|FLOAT|REAL)\b", m_.group(2), _re.I):
                rep.add(Finding(rule, f"{rule}/template/{e_.token}", "src/vtlengine/duckdb_transpiler/Transpiler/operators.py", e_.line, f"registry[{e_.token}]",
                                f"the SQL template of {e_.token} is `{tpl}`: the argument is cast to a binary floating type before it is accumulated, so the partial sums are rounded "
                                f"differently depending on the order and distribution of the rows; the same datapoints in another physical order, or under another thread count or memory "
                                f"limit, give a different result"))
    rep.floor(f"{rule} additive aggregate templates", n154, 2)
