"""C02 - clause operators (filter, calc, keep, drop, rename, sub) behave as specified.  Structural clauses decided:

R02.1 "keep/drop/rename/sub change only the listed components; calc adds or overwrites exactly the named components": for each
      clause the three pieces of code that say which components the result has - the interpreter's validator
      (Operators.Clause.*.validate), the transpiler's StructureVisitor builder (used for every clause that is not the last
      operation of its statement) and the SELECT list of the SQL handler - are evaluated by abstract interpretation (sa/e6.py) on
      small abstract structures (names and roles; 2 identifiers, 3 measures, an attribute, a viral attribute) for every operand
      list of length 1-2, and must agree on the component names (validator vs builder also on roles) whenever the validator
      accepts the clause
R02.2 filter: the datapoints kept are those for which the condition is TRUE: the handler hands the translated condition itself
      to WHERE (no wrapper such as `IS NOT FALSE` / COALESCE(…, TRUE) / NOT), also in the window-function variant, and changes no
      column
R02.3 sub: the fixed identifiers are removed from the result and every one of them is tested by exactly one equality in WHERE
R02.4 the clause scope (current dataset, column prefix, in-clause flag) is restored on every exit of the handler that sets it
      (shared rule RT.3b), the calc expressions and the filter condition are translated inside it (RT.5; the fixed value of sub
      is a scalar and is exempt), and the transpiler reads every field of RegularAggregation and RenameNode
Not decided: the per-datapoint value of calc expressions and of filter conditions (DuckDB evaluates them).
"""
from __future__ import annotations

import ast
import itertools
import re
from typing import Dict, List, Optional, Set, Tuple

from sa import sqlexpr, structmodel as sm, transp
from sa.core import AnalysisError, Finding, FuncInfo, Program, Report, program, src, walk_no_nested
from sa.e6 import Unmodelled

TR = transp.TR
EXEMPT = {("RegularAggregation", "isLast"): "layout marker derived by the constructor (clause body inside / outside a join); no semantics"}


def run(rep: Report, tier: str) -> None:  # noqa: C901
    P = program()
    rep.explanation = ("Abstract interpretation (finite structure domain: component names and roles) of the interpreter's clause validators, the "
                       "StructureVisitor's clause builders and the SQL clause handlers, all read from source and evaluated by the E6 evaluator on mock "
                       "structures; their outputs (component sets, SELECT lists, WHERE conditions) are compared. No vtlengine object exists and no SQL is run.")
    rep.rule("R02.1", "validator == structure builder == SELECT list of the SQL handler, for calc/keep/drop/rename/sub over all small operand lists")
    rep.rule("R02.2", "filter: WHERE is the condition itself (kept iff TRUE); columns unchanged")
    rep.rule("R02.3", "sub: fixed identifiers removed; one equality per fixed identifier")
    rep.rule("R02.4", "clause scope restored; every field of RegularAggregation / RenameNode read")
    M = sm.Model(P)

    def D() -> sm.MDS:
        return M.ds("DS_1", ["A", "B"], ["M", "N", "O"], ["V"], ["T"])
    non_ids = ["M", "N", "O", "T", "V"]
    jobs: List[Tuple[str, List[str], Optional[List[Tuple[str, str]]]]] = []
    for op in ("keep", "drop"):
        for k in (1, 2):
            for names in itertools.combinations(non_ids, k):
                jobs.append((op, list(names), None))
    for names in (["M"], ["X"], ["X", "N"], ["X", "Y"], ["O", "M"], ["T"]):
        jobs.append(("calc", names, None))
    for ren in ([("M", "X")], [("A", "Z")], [("A", "Z"), ("N", "Y")], [("M", "N"), ("N", "M")], [("V", "W")], [("T", "U"), ("B", "C")]):
        jobs.append(("rename", [], ren))
    for names in (["A"], ["B"], ["A", "B"]):
        jobs.append(("sub", names, None))
    # calc with every role keyword the interpreter accepts (ROLE_SETTER_MAPPING: token -> role-setter class -> Role member)
    role_tokens = _role_tokens(P)
    rep.floor("R02.1 calc role keywords", len(role_tokens), 4)
    jobs2: List[Tuple[str, List[str], Optional[List[Tuple[str, str]]], str, Optional[str]]] = [(op, n, r, "MEASURE", role_tokens.get("MEASURE") if op == "calc" else None) for op, n, r in jobs]
    for rname, tok in sorted(role_tokens.items()):
        for names in (["X"], ["M"], ["T"], ["V"], ["X", "N"]):
            if rname != "MEASURE":
                jobs2.append(("calc", names, None, rname, tok))
    n_ok = 0
    for op, names, ren, rname, tok in jobs2:
        label = f"{op}/{'+'.join(names) if names else '+'.join(f'{a}>{b}' for a, b in ren or [])}" + (f"/as-{rname.lower()}" if op == "calc" and rname != "MEASURE" else "")
        try:
            a = sm.clause_interpreter(M, op, D(), names, ren, role=rname)
            b = sm.clause_visitor(M, op, D(), names, ren, role_token=tok)
            d = D()
            c = sm.clause_sql(M, op, d, names, ren, role_token=tok)
        except Unmodelled as e:
            raise AnalysisError(f"R02.1 {label}: construct outside the evaluator's language: {e}")
        if a[0] != "ok":
            rep.instance("R02.1", label, nontrivial=False, sample={"validator": a})
            continue
        n_ok += 1
        va = sm.comp_summary(a[1])
        vb = sm.comp_summary(b[1]) if b[0] == "ok" else None
        cols = sorted(sm.sql_columns(c[1], list(d.components))) if c[0] == "ok" and not isinstance(c[1], str) else None
        rep.instance("R02.1", label, sample={"validator": [n for n, _ in va], "builder": [n for n, _ in vb] if vb else b, "sql": cols})
        fb = P.func(f"{sm.SV}.{sm.CLAUSE_BUILDERS[op]}")
        fs = P.func(f"{sm.TRQ}.{sm.SQL_HANDLERS[op]}")
        if vb is None or [n for n, _ in va] != [n for n, _ in vb]:
            rep.add(transp.fnd("R02.1", f"{op}/builder/{label}", fb, fb.node.lineno,
                               f"{op} {names or ren} on DS_1(ids A,B; measures M,N,O; attribute T; viral V): semantic analysis gives components {[n for n, _ in va]} but the "
                               f"transpiler's structure for the clause result is {[n for n, _ in vb] if vb else b}: whatever follows the clause in the same statement works on the wrong components"))
        elif dict(va) != dict(vb):
            diff = {n: (str(dict(va)[n]), str(dict(vb)[n])) for n in dict(va) if dict(va)[n] != dict(vb)[n]}
            rep.add(transp.fnd("R02.1", f"{op}/builder-roles/{label}", fb, fb.node.lineno,
                               f"{op} {names or ren}" + (f" with role `{tok}`" if op == "calc" else "") + f": semantic analysis and the transpiler's structure builder disagree on the role of {diff} "
                               f"(validator, builder): operations applied to the clause result in the same statement treat the component by the wrong role"))
        if op == "calc":
            fv = P.func(f"{sm.CLAUSE_VALIDATORS[op]}.validate")
            wrong = {n: str(dict(va).get(n)) for n in names if dict(va).get(n) != M.roles[rname]}
            other = {n: (str(r0), str(dict(va).get(n))) for n, r0 in sm.comp_summary(D()) if n not in names and dict(va).get(n) != r0}
            if wrong:
                rep.add(transp.fnd("R02.1", f"calc/validator-role/{label}", fv, fv.node.lineno,
                                   f"calc {names} with role `{tok}`: semantic analysis gives the calculated component(s) the role {wrong}, not {M.roles[rname]}"))
            if other:
                rep.add(transp.fnd("R02.1", f"calc/validator-other/{label}", fv, fv.node.lineno,
                                   f"calc {names}: semantic analysis changes the role of components the clause does not name: {other}"))
        if cols is None or sorted(n for n, _ in va) != cols:
            rep.add(transp.fnd("R02.1", f"{op}/sql/{label}", fs, fs.node.lineno,
                               f"{op} {names or ren} on DS_1(ids A,B; measures M,N,O; attribute T; viral V): semantic analysis gives components {sorted(n for n, _ in va)} but the "
                               f"SELECT list generated for the clause delivers {cols}: the clause changes components other than the listed ones"))
        if op == "calc" and c[0] == "ok" and not isinstance(c[1], str):
            for item, redefined in sm.expression_scopes(c[1]):
                rep.instance("R02.1", f"calc/scope/{label}/{item[:30]}", nontrivial=True, sample={"item": item, "redefined-below": redefined})
                if redefined and not any(x.key.endswith(f"calc/scope/{label}") for x in rep.findings):
                    rep.add(transp.fnd("R02.1", f"calc/scope/{label}", fs, fs.node.lineno,
                                       f"calc {names} on DS_1(…): the generated query evaluates `{item}` above a level that has already replaced column(s) {redefined}: "
                                       f"an expression that reads such a component sees the NEW value, but every calc expression is defined over the input dataset (simultaneous assignment)"))
        if op == "sub" and c[0] == "ok":
            ws = c[1].wheres
            want = sorted(f'"{n}"' for n in names)
            got = sorted(w.split("=")[0].strip() for w in ws if "=" in w)
            rep.instance("R02.3", label, sample=ws)
            if got != want or len(ws) != len(names):
                rep.add(transp.fnd("R02.3", f"sub/where/{label}", fs, fs.node.lineno,
                                   f"sub {names}: the WHERE conditions are {ws}; expected exactly one equality on each fixed identifier {want}"))
    rep.floor("R02.1 accepted clause instances", n_ok, 40)

    # ---- R02.2 filter ----
    d = D()
    c = sm.clause_sql(M, "filter", d, [], None)
    ff = P.func(f"{sm.TRQ}.visit_RegularAggregation_filter")
    rep.instance("R02.2", "filter/plain", sample={"where": c[1].wheres if c[0] == "ok" and not isinstance(c[1], str) else c})
    if c[0] != "ok" or isinstance(c[1], str):
        raise AnalysisError(f"filter handler not evaluable: {c}")
    cols = sm.sql_columns(c[1], list(d.components))
    if sorted(cols) != sorted(d.components):
        rep.add(transp.fnd("R02.2", "filter/columns", ff, ff.node.lineno, f"filter delivers columns {cols}; it must leave the components unchanged"))
    _filter_truth(rep, ff, "filter/plain", " AND ".join(f"({w})" for w in c[1].wheres))
    # window-function variant: evaluated with the analytic test forced to True; result is a string
    from sa.e6 import Interp, Raised
    node = sm.MNode("RegularAggregation", op="filter", children=[sm.MNode("VarID", value="COND")], dataset="SRC")
    ext = {"self._resolve_clause_dataset": lambda n: (d, '"SRC"'), "self.visit": lambda x: "⟦COND⟧", "self._clause_scope": lambda *a, **k: None,
           "_contains_analytic": lambda x: True, "isinstance": sm._isinstance, "SQLBuilder": sm.MBuilder}
    try:
        txt = Interp(P, externals=ext).call(ff, {"self": sm.MTranspiler(), "node": node})
    except (Raised, Unmodelled) as e:
        raise AnalysisError(f"filter handler (window variant) not evaluable: {e}")
    rep.instance("R02.2", "filter/window-variant", sample=str(txt)[:160])
    m1 = re.search(r'\(\((?P<c>.*?)\)\) AS "(?P<a>[^"]+)"|\((?P<c2>[^()]*)\) AS "(?P<a2>[^"]+)"', str(txt))
    m2 = re.search(r'WHERE\s+"([^"]+)"\s*$', str(txt))
    alias = (m1.group("a") or m1.group("a2")) if m1 else None
    if not (m1 and m2 and alias == m2.group(1)):
        rep.add(transp.fnd("R02.2", "filter/window-variant", ff, ff.node.lineno,
                           f"window-function variant of filter: the outer WHERE does not test exactly the projected predicate column (`{str(txt)[:120]}`)"))
    else:
        _filter_truth(rep, ff, "filter/window-variant", (m1.group("c") or m1.group("c2")))
    # filter over the RESULT of another clause: the condition must be evaluated over that result as a table (FROM (<operand SELECT>)),
    # never appended to the operand's own SELECT - in `SELECT e AS x FROM t WHERE x > 1` the WHERE sees the base column t.x, not the alias
    for inner_op in ("calc", "keep", "rename"):
        inner = sm.MNode("RegularAggregation", op=inner_op, children=[], dataset=sm.MNode("VarID", value="DS_1"))
        node2 = sm.MNode("RegularAggregation", op="filter", children=[sm.MNode("VarID", value="COND")], dataset=inner)
        inner_sql = f'(SELECT ⟦{inner_op}-items⟧ FROM "DS_1")'
        ext2 = {"self._resolve_clause_dataset": lambda n: (d, inner_sql), "self.visit": lambda x: "⟦COND⟧", "self._clause_scope": lambda *a, **k: None,
                "_contains_analytic": lambda x: False, "isinstance": sm._isinstance, "SQLBuilder": sm.MBuilder, "self._as_subquery": lambda x: x}
        try:
            r2 = Interp(P, externals=ext2).call(ff, {"self": sm.MTranspiler(), "node": node2})
        except (Raised, Unmodelled) as e:
            raise AnalysisError(f"filter handler over a {inner_op} operand not evaluable: {e}")
        if isinstance(r2, sm.MBuilder):
            ok2 = r2.table == inner_sql and r2.sub is None
            shown = f"FROM {r2.table} WHERE {r2.wheres}"
        else:
            ok2 = inner_sql in str(r2) and re.search(r"FROM\s+" + re.escape(inner_sql), str(r2)) is not None
            shown = str(r2)[:140]
        rep.instance("R02.2", f"filter/over-{inner_op}", sample={"sql": shown})
        if not ok2:
            rep.add(transp.fnd("R02.2", f"filter/over-{inner_op}", ff, ff.node.lineno,
                               f"DS_1[{inner_op} …][filter cond]: the filter is written `{shown}` - the condition is attached to the {inner_op} clause's own SELECT instead of being evaluated over its "
                               f"result (FROM {inner_sql}): in WHERE a name denotes the INPUT column, so a condition on a component the {inner_op} clause overwrote or renamed tests the old value"))
    if not re.search(r'EXCLUDE \("' + re.escape(alias or "?") + r'"\)', str(txt)):
        rep.add(transp.fnd("R02.2", "filter/window-variant/columns", ff, ff.node.lineno, "window-function variant of filter: the helper predicate column is not removed from the result"))

    # ---- R02.4 ----
    transp.field_coverage(P, rep, "R02.4", ["RegularAggregation", "RenameNode"], EXEMPT, "clause")
    transp.state_discipline(P, rep, "R02.4", only_attrs={"_in_clause", "_current_dataset", "_column_prefix"}, parts="b")
    n_scope = transp.scope_coverage(P, rep, "R02.4", only={"visit_RegularAggregation_calc", "visit_RegularAggregation_filter", "visit_RegularAggregation_sub"})
    rep.floor("R02.4 clause expressions translated", n_scope, 2)
    # ---- R02.5 the builder the clause handlers rely on (real class, evaluated) ----
    rep.rule("R02.5", "SQLBuilder: every where() condition reaches the WHERE clause (conjunction) - the real class evaluated by E6")
    transp.builder_contract(P, rep, "R02.5", parts="w")
    # ---- R02.8 a clause applied to a join result keeps ITS value of a component over the leftover alias#component column of the join ----
    rep.rule("R02.8", "final un-qualification of join columns: a component a later clause (calc) has produced under its plain name is not replaced by the join's leftover alias#name column")
    from sa.e6 import ExternalObj as _EO8, Interp as _I8, Raised as _R8
    fu = P.func(f"{sm.TRQ}._unqualify_join_columns")
    inner = 'SELECT "Id_1", "d2#Me_1", ("d2#Me_1" * 2) AS "Me_1" FROM (SELECT * EXCLUDE ("d1#Me_1") FROM j) AS t'
    me8 = sm.MTranspiler()
    me8._join_alias_map = {"d1#Me_1": "d1#Me_1", "d2#Me_1": "d2#Me_1"}
    me8._consumed_join_aliases = {"d1#Me_1"}
    me8.output_datasets = {"DS_r": _EO8({"components": {"Id_1": None, "Me_1": None}})}
    try:
        out8 = str(_I8(P, externals={"quote_name": lambda x: f'"{x}"'}).call(fu, {"self": me8, "ds_name": "DS_r", "query": inner}))
    except Unmodelled as e:
        raise AnalysisError(f"R02.8: _unqualify_join_columns outside the evaluator's language: {e}")
    except _R8 as e:
        raise AnalysisError(f"R02.8: _unqualify_join_columns raised {e.exc}")
    outer_list = out8.split(" FROM (", 1)[0]
    rep.instance("R02.8", "join-leftover/calc-overwrites", sample={"outer select": outer_list[:120]})
    if re.search(r'"d2#Me_1"\s+AS\s+"Me_1"', outer_list):
        rep.add(transp.fnd("R02.8", "join-leftover/calc-overwrites", fu, fu.node.lineno,
                           f"inner_join(DS_1 as d1, DS_2 as d2 drop d1#Me_1)[calc Me_1 := Me_1 * 2]: the statement's query already delivers the calculated `Me_1`, but the final projection is "
                           f"`{outer_list[:90]}` - it takes the join's leftover column d2#Me_1 instead, so the result holds the un-multiplied values"))
    # ---- R02.6 a clause leaves its operand as it found it (the same dataset may be read by another statement) ----
    rep.rule("R02.6", "clause validators (filter / calc / keep / drop / rename / sub / aggr ...) do not mutate the structure of their operand")
    from sa.checks.c12 import operand_mutations
    operand_mutations(P, rep, "R02.6", ("vtlengine.Operators.Clause",), floor=6)
    # ---- R02.7 what a clause reads is a dependency of its statement (dependency analysis, shared with C12) ----
    rep.rule("R02.7", "dependency analysis descends into clause bodies on every path; a script-level value read inside clauses of several statements is an input of each of them")
    from sa.checks.c12 import traversal_on_every_path, unknown_resolution
    traversal_on_every_path(P, rep, "R02.7", {"RegularAggregation", "BinOp", "UnaryOp"})
    unknown_resolution(P, rep, "R02.7")
    # ---- R02.9: the join bookkeeping of a statement does not reach the clauses of the next statement (shared with C04/C12) ----
    rep.rule("R02.9", "join bookkeeping (_join_alias_map / _consumed_join_aliases) is reset once per statement on every path of visit_Start: a leftover alias decides which "
                      "columns a later clause keeps, drops or renames")
    transp.state_discipline(P, rep, "R02.9", only_attrs={"_join_alias_map", "_consumed_join_aliases"}, parts="ab")
    # ---- R02.10: after a join, components are addressed by their unprefixed names (shared with C04 R04.9) ----
    rep.rule("R02.10", "the prefix stripping after a join leaves every component under its own unprefixed name (dict key == component name): a clause applied to the "
                       "join result finds, keeps, drops and renames components by that name")
    from sa.checks.c04 import strip_prefixes_model as _strip_model
    _strip_model(P, rep, "R02.10")
    rep.assumptions = ["abstract structures: names and roles only; expressions inside calc/filter are opaque", "SQL: WHERE keeps the rows for which its predicate is TRUE",
                       "inside the clause handlers SQLBuilder is a recording stand-in; that the real class conjoins its where() conditions is decided by R02.5"]


def _role_tokens(P: Program) -> Dict[str, str]:
    """Role member name -> calc role keyword, read from vtlengine.Utils.ROLE_SETTER_MAPPING and the role-setter classes"""
    m = P.module("vtlengine.Utils")
    out: Dict[str, str] = {}
    for st in m.tree.body:
        if isinstance(st, ast.Assign) and isinstance(st.targets[0], ast.Name) and st.targets[0].id == "ROLE_SETTER_MAPPING" and isinstance(st.value, ast.Dict):
            for k, v in zip(st.value.keys, st.value.values):
                toks = P.const_values(None, m, k) if k is not None else None
                cq = P.resolve_expr(m, v)
                ci = P.classes.get(cq or "")
                got = P.lookup_attr(ci, "role") if ci else None
                if not toks or len(toks) != 1 or got is None or not isinstance(got[1], ast.Attribute):
                    raise AnalysisError(f"ROLE_SETTER_MAPPING entry {src(k) if k is not None else '?'} is not (constant keyword -> class with a literal `role`)")
                out[got[1].attr] = next(iter(toks))
    if not out:
        raise AnalysisError("vtlengine.Utils.ROLE_SETTER_MAPPING not found")
    return out


def _filter_truth(rep: Report, f: FuncInfo, key: str, predicate: str) -> None:
    pred = predicate.replace("⟦COND⟧", "X")
    for x in (True, False, None):
        try:
            got = sqlexpr.eval3(sqlexpr.parse(pred), {"X": x, "x": x}, {})
        except sqlexpr.ParseError as e:
            raise AnalysisError(f"filter predicate `{pred}` not evaluable: {e}")
        rep.instance("R02.2", f"{key}/cond={x}", sample={"kept": got is True})
        if (got is True) != (x is True):
            rep.add(transp.fnd("R02.2", f"{key}/cond={x}", f, f.node.lineno,
                               f"filter with a condition that evaluates to {x}: the datapoint is {'kept' if got is True else 'dropped'} (WHERE {pred}); VTL keeps exactly the datapoints whose condition is TRUE"))
