"""Concrete evaluation of parsed scalar SQL (sa.sqlexpr trees) on strings/ints, for the string-manipulating macros
(vtl_period_normalize, representation macros).  Used to run *documented example values* and automaton witnesses through
the macro text that is in the repository - the macro is data here (parsed SQL), nothing of vtlengine or DuckDB is executed.
Unsupported constructs raise sqlexpr.ParseError (→ ANALYSIS-ERROR)."""
from __future__ import annotations

import calendar
import datetime
import re
from typing import Any, Dict, Optional

from sa import sqlexpr
from sa.sqlexpr import E, ParseError
from sa.sqlx import Macro

_PARSED: Dict[str, E] = {}


class SqlError(Exception):
    """error('…') was reached or a cast failed"""


def ev(e: E, env: Dict[str, Any], macros: Dict[str, Macro], depth: int = 0) -> Any:  # noqa: C901
    k = e.kind
    if k == "null":
        return None
    if k == "lit":
        s = str(e.val)
        if s.startswith("'"):
            return s[1:-1].replace("''", "'")
        if s.upper() in ("TRUE", "FALSE"):
            return s.upper() == "TRUE"
        return int(s) if re.fullmatch(r"-?\d+", s) else float(s)
    if k in ("ident", "ph"):
        key = str(e.val)
        if key in env:
            return env[key]
        if key.lower() in env:
            return env[key.lower()]
        raise ParseError(f"free variable {key}")
    if k == "field":
        base = ev(e.args[0], env, macros, depth)
        if base is None:
            return None
        if isinstance(base, dict):
            return base.get(str(e.val).strip('"'))
        raise ParseError(f"field access on {type(base).__name__}")
    if k == "struct":
        return {str(n).strip("'\""): ev(v, env, macros, depth) for n, v in zip(e.val, e.args)}
    if k == "cast":
        v = ev(e.args[0], env, macros, depth)
        if v is None:
            return None
        ty = str(e.val).upper()
        try:
            if ty in ("INTEGER", "BIGINT", "INT", "SMALLINT"):
                if isinstance(v, str):
                    if not re.fullmatch(r"\s*[-+]?\d+\s*", v):
                        raise ValueError(v)
                    return int(v)
                return int(v)
            if ty in ("VARCHAR", "TEXT", "STRING"):
                return str(v) if not isinstance(v, datetime.date) else v.isoformat()  # a Python float prints 2.0 as DuckDB does
            if ty in ("DATE", "TIMESTAMP"):  # times of day are not modelled: a TIMESTAMP is the date at midnight
                if isinstance(v, datetime.date):
                    return v
                m = re.fullmatch(r"\s*(\d{4})-(\d{1,2})-(\d{1,2})\s*", str(v))
                if not m:
                    raise ValueError(v)
                return datetime.date(int(m.group(1)), int(m.group(2)), int(m.group(3)))
            if ty.startswith("VTL_"):
                return v
        except ValueError:
            if e.extra == "TRY_CAST":
                return None
            raise SqlError(f"Conversion Error: could not cast {v!r} to {ty}")
        raise ParseError(f"cast to {ty}")
    if k == "unop":
        v = ev(e.args[0], env, macros, depth)
        if v is None:
            return None
        return (not v) if e.val == "NOT" else (-v if e.val == "-" else v)
    if k == "binop":
        op = e.val
        if op in ("AND", "OR"):
            a, b = ev(e.args[0], env, macros, depth), ev(e.args[1], env, macros, depth)
            if op == "AND":
                return False if (a is False or b is False) else (None if (a is None or b is None) else True)
            return True if (a is True or b is True) else (None if (a is None or b is None) else False)
        a, b = ev(e.args[0], env, macros, depth), ev(e.args[1], env, macros, depth)
        if a is None or b is None:
            return None
        if op == "||":
            return str(a) + str(b)
        if op in ("=", "<>", "!=", "<", ">", "<=", ">="):
            return {"=": a == b, "<>": a != b, "!=": a != b, "<": a < b, ">": a > b, "<=": a <= b, ">=": a >= b}[op]
        if op == "+":
            if isinstance(a, datetime.date) and isinstance(b, tuple) and b[0] == "months":
                y, m0 = divmod(a.year * 12 + (a.month - 1) + b[1], 12)
                return datetime.date(y, m0 + 1, min(a.day, calendar.monthrange(y, m0 + 1)[1]))
            return a + b
        if op == "/":
            if b == 0:
                return None
            return a / b  # DuckDB: `/` is floating-point division
        if op == "-":
            return a - b
        if op == "*":
            return a * b
        if op == "//":
            q = abs(a) // abs(b)
            return q if (a >= 0) == (b >= 0) else -q
        if op == "%":
            r = abs(a) % abs(b)
            return r if a >= 0 else -r
        raise ParseError(f"operator {op}")
    if k == "let":
        env2 = dict(env)
        for layer in e.extra:  # innermost row source first; each layer sees the names of the one below it
            vals = {nm: ev(ex, env2, macros, depth) for nm, ex in layer}
            env2 = dict(env2)
            env2.update(vals)
        return ev(e.args[0], env2, macros, depth)
    if k == "isnull":
        return (ev(e.args[0], env, macros, depth) is None) != e.val
    if k == "in":
        a = ev(e.args[0], env, macros, depth)
        if a is None:
            return None
        r = any(a == ev(x, env, macros, depth) for x in e.args[1:])
        return (not r) if e.val else r
    if k == "between":
        a, lo, hi = (ev(x, env, macros, depth) for x in e.args)
        if None in (a, lo, hi):
            return None
        r = lo <= a <= hi
        return (not r) if e.val else r
    if k == "case":
        for c, r in zip(e.args[0::2], e.args[1::2]):
            cv = (ev(e.val, env, macros, depth) == ev(c, env, macros, depth)) if e.val is not None else ev(c, env, macros, depth)
            if cv is True:
                return ev(r, env, macros, depth)
        return ev(e.extra, env, macros, depth) if e.extra is not None else None
    if k == "call":
        name = str(e.val).lower()
        if name == "error":
            raise SqlError(str(ev(e.args[0], env, macros, depth)))
        if name == "interval":
            n = ev(e.args[0], env, macros, depth)
            if n is None:
                return None
            if isinstance(n, str):
                n = int(n)
            if e.extra == "DAY":
                return datetime.timedelta(days=int(n))
            if e.extra in ("MONTH", "YEAR"):
                return ("months", int(n) * (12 if e.extra == "YEAR" else 1))
            raise ParseError(f"interval unit {e.extra}")
        if name in ("coalesce", "ifnull"):
            for a in e.args:
                v = ev(a, env, macros, depth)
                if v is not None:
                    return v
            return None
        args = [ev(a, env, macros, depth) for a in e.args]
        if name in macros and depth < 6:
            m = macros[name]
            if m.name not in _PARSED:
                _PARSED[m.name] = sqlexpr.parse(m.body, let=True)
            return ev(_PARSED[m.name], dict(zip(m.params, args)), macros, depth + 1)
        if any(a is None for a in args):
            return None
        if name in ("substr", "substring"):
            s, start = str(args[0]), int(args[1])
            ln = int(args[2]) if len(args) > 2 else None
            i = max(start - 1, 0)
            return s[i:] if ln is None else s[i:i + max(ln, 0)]
        if name in ("length", "len"):
            return len(str(args[0]))
        if name == "upper":
            return str(args[0]).upper()
        if name == "lower":
            return str(args[0]).lower()
        if name == "trim":
            return str(args[0]).strip()
        if name == "lpad":
            s, n, pad = str(args[0]), int(args[1]), str(args[2])
            return s[:n] if len(s) >= n else (pad * n)[: n - len(s)] + s
        if name == "dayofyear":
            return args[0].timetuple().tm_yday
        if name == "year":
            return args[0].year
        if name == "month":
            return args[0].month
        if name == "day":
            return args[0].day
        if name == "quarter":
            return (args[0].month - 1) // 3 + 1
        if name == "dayofweek":
            return args[0].isoweekday() % 7
        if name == "split_part":
            parts_ = str(args[0]).split(str(args[1]))
            i_ = int(args[2])
            return parts_[i_ - 1] if 1 <= i_ <= len(parts_) else ""
        if name == "last_day":
            return args[0].replace(day=calendar.monthrange(args[0].year, args[0].month)[1])
        if name == "isodow":
            return args[0].isoweekday()
        if name == "isoyear":
            return args[0].isocalendar()[0]
        if name in ("weekofyear", "week"):
            return args[0].isocalendar()[1]
        if name == "make_date":
            try:
                return datetime.date(*[int(a) for a in args])
            except ValueError as ex:
                raise SqlError(f"Conversion Error: {ex}")
        if name == "hour":
            return getattr(args[0], "hour", 0)
        if name == "minute":
            return getattr(args[0], "minute", 0)
        if name == "second":
            return getattr(args[0], "second", 0)
        if name == "millisecond":  # DuckDB: the seconds are included
            return getattr(args[0], "second", 0) * 1000 + getattr(args[0], "microsecond", 0) // 1000
        if name == "microsecond":  # DuckDB: the seconds are included
            return getattr(args[0], "second", 0) * 1000000 + getattr(args[0], "microsecond", 0)
        if name == "strftime":
            # DuckDB accepts both argument orders (timestamp, format) and (format, timestamp)
            a0, a1 = (args[1], args[0]) if isinstance(args[0], str) else (args[0], args[1])
            return a0.strftime(str(a1))
        if name == "strptime":
            # the directives the library uses (%G ISO year, %V ISO week, %u ISO weekday, %Y %m %d %j) mean the same in Python
            try:
                return datetime.datetime.strptime(str(args[0]), str(args[1]))
            except ValueError as ex:
                raise SqlError(f"Invalid Input Error: Could not parse string \"{args[0]}\" according to format specifier \"{args[1]}\": {ex}")
        if name == "replace":
            return str(args[0]).replace(str(args[1]), str(args[2]))
        if name in ("regexp_matches", "regexp_full_match"):
            import re as _re_
            if args[0] is None or args[1] is None:
                return None
            m_ = (_re_.fullmatch if name == "regexp_full_match" else _re_.search)(str(args[1]), str(args[0]))
            return m_ is not None
        raise ParseError(f"function {name}")
    raise ParseError(f"construct {k}:{e.val}")


def call_macro(macros: Dict[str, Macro], name: str, *args: Any) -> Any:
    m = macros[name.lower()]
    if m.name not in _PARSED:
        _PARSED[m.name] = sqlexpr.parse(m.body, let=True)
    return ev(_PARSED[m.name], dict(zip(m.params, args)), macros, 1)
