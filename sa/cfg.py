"""E1 - statement-level control-flow graph with exception edges.

Nodes are (stmt, tag) pairs; tag distinguishes the copies of a `finally` body built for the normal,
exceptional and return/break/continue continuations (so a path that enters a finally because of an exception
cannot leave it as if nothing had happened).  Synthetic nodes: ENTRY, EXIT (normal return / fall off the end),
RAISE (exception escapes the function).

Exception edges: every node whose statement `may_raise` (default: contains a call, subscript, attribute
access on a non-self name, `raise`, or `assert`) has an edge to the innermost enclosing handler dispatch
(all handlers of the try are possible) or, outside any try, to RAISE.  Handlers are assumed to be able to
catch anything raised in their try body *and* the exception may also not match any handler (edge to the
outer context) unless one handler is a bare `except`/`except BaseException`/`except Exception`.
"""
from __future__ import annotations

import ast
from dataclasses import dataclass, field
from typing import Callable, Dict, Iterable, Iterator, List, Optional, Set, Tuple

ENTRY, EXIT, RAISE = "ENTRY", "EXIT", "RAISE"


@dataclass(frozen=True)
class Node:
    stmt: Optional[ast.AST]
    tag: str = ""
    kind: str = "stmt"  # stmt | test | loop | with | except | synthetic
    label: str = ""

    def __repr__(self) -> str:
        if self.stmt is None:
            return self.label
        return f"{self.kind}@{getattr(self.stmt, 'lineno', '?')}{('#' + self.tag) if self.tag else ''}"

    @property
    def lineno(self) -> int:
        return getattr(self.stmt, "lineno", 0) if self.stmt is not None else 0


def default_may_raise(node: Node) -> bool:
    st = node.stmt
    if st is None:
        return False
    if node.kind in ("test", "loop", "with"):
        exprs: List[ast.AST] = []
        if isinstance(st, (ast.If, ast.While)):
            exprs = [st.test]
        elif isinstance(st, (ast.For, ast.AsyncFor)):
            exprs = [st.iter]
        elif isinstance(st, (ast.With, ast.AsyncWith)):
            exprs = [i.context_expr for i in st.items]
        return any(_expr_may_raise(e) for e in exprs)
    if node.kind == "except":
        return False
    if isinstance(st, (ast.Raise, ast.Assert)):
        return True
    if isinstance(st, (ast.Pass, ast.Break, ast.Continue, ast.Global, ast.Nonlocal, ast.FunctionDef, ast.ClassDef,
                       ast.Import, ast.ImportFrom)):
        return isinstance(st, (ast.Import, ast.ImportFrom))
    if isinstance(st, ast.AnnAssign):
        return (st.value is not None and _expr_may_raise(st.value)) or not isinstance(st.target, ast.Name)
    return _expr_may_raise(st)


def _expr_may_raise(e: ast.AST) -> bool:
    for n in ast.walk(e):
        if isinstance(n, (ast.Call, ast.Subscript, ast.BinOp, ast.Await, ast.Yield, ast.YieldFrom)):
            return True
        if isinstance(n, (ast.Lambda, ast.FunctionDef)):
            continue
    return False


class CFG:
    def __init__(self, fn: ast.AST, may_raise: Callable[[Node], bool] = default_may_raise,
                 for_nonempty: bool = False, exception_catches_all: bool = False) -> None:
        """for_nonempty: model every `for` loop as executing its body at least once (first arrival at the
        header has no edge to the code after the loop) - for per-element obligations."""
        self.fn = fn
        self.may_raise = may_raise
        self.for_nonempty = for_nonempty
        # `except Exception` does not catch KeyboardInterrupt/SystemExit/GeneratorExit: by default an exception edge
        # also bypasses such a handler; set True to treat it as catching everything.
        self.exception_catches_all = exception_catches_all
        self.entry = Node(None, kind="synthetic", label=ENTRY)
        self.exit = Node(None, kind="synthetic", label=EXIT)
        self.raise_exit = Node(None, kind="synthetic", label=RAISE)
        self.succ: Dict[Node, Set[Node]] = {}
        self.exc_succ: Dict[Node, Set[Node]] = {}  # exception edges (subset of succ)
        self.norm_succ: Dict[Node, Set[Node]] = {}  # normal-flow edges (subset of succ)
        self.nodes: List[Node] = [self.entry, self.exit, self.raise_exit]
        ctx = _Ctx(exc=[self.raise_exit], ret=self.exit, brk=None, cont=None, tag="")
        first = self._block(fn.body, [self.exit], ctx)  # type: ignore[attr-defined]
        for f in first:
            self._edge(self.entry, f)

    # ---- construction -----------------------------------------------------------------------
    def _edge(self, a: Node, b: Node, exc: bool = False) -> None:
        self.succ.setdefault(a, set()).add(b)
        self.succ.setdefault(b, set())
        if exc:
            self.exc_succ.setdefault(a, set()).add(b)
        else:
            self.norm_succ.setdefault(a, set()).add(b)

    def _node(self, st: ast.AST, tag: str, kind: str = "stmt") -> Node:
        n = Node(st, tag, kind)
        if n not in self.succ:
            self.succ[n] = set()
            self.nodes.append(n)
        return n

    def _exc_edges(self, n: Node, ctx: "_Ctx") -> None:
        if self.may_raise(n):
            for t in ctx.exc:
                self._edge(n, t, exc=True)

    def _block(self, body: List[ast.stmt], follow: List[Node], ctx: "_Ctx") -> List[Node]:
        """Build nodes for `body`; control continues to `follow` afterwards.  Returns entry node(s)."""
        nxt = follow
        for st in reversed(body):
            nxt = self._stmt(st, nxt, ctx)
        return nxt

    def _stmt(self, st: ast.stmt, follow: List[Node], ctx: "_Ctx") -> List[Node]:  # noqa: C901
        tag = ctx.tag
        if isinstance(st, ast.If):
            n = self._node(st, tag, "test")
            self._exc_edges(n, ctx)
            for t in self._block(st.body, follow, ctx):
                self._edge(n, t)
            for t in (self._block(st.orelse, follow, ctx) if st.orelse else follow):
                self._edge(n, t)
            return [n]
        if isinstance(st, (ast.For, ast.AsyncFor, ast.While)):
            n = self._node(st, tag, "loop")
            self._exc_edges(n, ctx)
            after = self._block(st.orelse, follow, ctx) if st.orelse else follow
            inner = ctx.derive(brk=follow, cont=[n])
            for t in self._block(st.body, [n], inner):
                self._edge(n, t)
            infinite = isinstance(st, ast.While) and isinstance(st.test, ast.Constant) and bool(st.test.value)
            if not infinite:
                for t in after:
                    self._edge(n, t)
            if self.for_nonempty and isinstance(st, (ast.For, ast.AsyncFor)):
                n0 = self._node(st, tag + "!first", "loop")
                self._exc_edges(n0, ctx)
                for t in self.succ[n]:
                    if t not in after or t in self.norm_succ.get(n, set()) and any(t is b for b in ()):
                        pass
                body_entries = [t for t in self.norm_succ.get(n, set()) if t not in after]
                for t in body_entries:
                    self._edge(n0, t)
                return [n0]
            return [n]
        if isinstance(st, (ast.With, ast.AsyncWith)):
            n = self._node(st, tag, "with")
            self._exc_edges(n, ctx)
            for t in self._block(st.body, follow, ctx):
                self._edge(n, t)
            return [n]
        if isinstance(st, ast.Try) or (hasattr(ast, "TryStar") and isinstance(st, getattr(ast, "TryStar"))):
            return self._try(st, follow, ctx)
        if isinstance(st, ast.Match):
            n = self._node(st, tag, "test")
            self._exc_edges(n, ctx)
            for case in st.cases:
                for t in self._block(case.body, follow, ctx):
                    self._edge(n, t)
            for t in follow:
                self._edge(n, t)
            return [n]
        n = self._node(st, tag)
        if isinstance(st, ast.Return):
            self._exc_edges(n, ctx)
            for t in ctx.ret_targets():
                self._edge(n, t)
            return [n]
        if isinstance(st, ast.Raise):
            for t in ctx.exc:
                self._edge(n, t, exc=True)
            return [n]
        if isinstance(st, ast.Break):
            for t in (ctx.brk or follow):
                self._edge(n, t)
            return [n]
        if isinstance(st, ast.Continue):
            for t in (ctx.cont or follow):
                self._edge(n, t)
            return [n]
        self._exc_edges(n, ctx)
        for t in follow:
            self._edge(n, t)
        return [n]

    def _try(self, st: ast.Try, follow: List[Node], ctx: "_Ctx") -> List[Node]:
        tag = ctx.tag
        fin = st.finalbody
        # continuation wrappers through finally copies
        def through_finally(kind: str, targets: List[Node]) -> List[Node]:
            if not fin:
                return targets
            c2 = ctx.derive(tag=f"{tag}f{st.lineno}{kind}")
            return self._block(fin, targets, c2)

        normal_after = through_finally("n", follow)
        exc_after = through_finally("x", list(ctx.exc))
        ret_after = through_finally("r", ctx.ret_targets()) if fin else ctx.ret_targets()
        brk_after = through_finally("b", ctx.brk) if (fin and ctx.brk) else ctx.brk
        cont_after = through_finally("c", ctx.cont) if (fin and ctx.cont) else ctx.cont

        # handlers
        handler_entries: List[Node] = []
        catches_all = False
        hctx = ctx.derive(exc=exc_after, ret_override=ret_after, brk=brk_after, cont=cont_after)
        for h in st.handlers:
            hn = self._node(h, tag, "except")
            body_entries = self._block(h.body, normal_after, hctx)
            for t in body_entries:
                self._edge(hn, t)
            handler_entries.append(hn)
            if h.type is None or (isinstance(h.type, ast.Name) and h.type.id == "BaseException") or (
                    self.exception_catches_all and isinstance(h.type, ast.Name) and h.type.id == "Exception"):
                catches_all = True
        body_exc = list(handler_entries)
        if not catches_all:
            body_exc += exc_after
        bctx = ctx.derive(exc=body_exc, ret_override=ret_after, brk=brk_after, cont=cont_after)
        else_entries = self._block(st.orelse, normal_after, hctx) if st.orelse else normal_after
        return self._block(st.body, else_entries, bctx)

    # ---- queries -----------------------------------------------------------------------------
    def edges(self, n: Node, follow_exc: bool = True) -> Set[Node]:
        return self.succ.get(n, set()) if follow_exc else self.norm_succ.get(n, set())

    def reachable(self, start: Iterable[Node], avoid: Callable[[Node], bool] = lambda n: False,
                  follow_exc: bool = True) -> Set[Node]:
        seen: Set[Node] = set()
        stack = [s for s in start if not avoid(s)]
        while stack:
            n = stack.pop()
            if n in seen:
                continue
            seen.add(n)
            for t in self.edges(n, follow_exc):
                if t not in seen and not avoid(t):
                    stack.append(t)
        return seen

    def path_avoiding(self, start: Node, goal: Callable[[Node], bool], avoid: Callable[[Node], bool],
                      follow_exc: bool = True) -> Optional[List[Node]]:
        """A path start →* n with goal(n), never visiting a node with avoid(n) (start itself exempt)."""
        prev: Dict[Node, Optional[Node]] = {start: None}
        queue = [start]
        while queue:
            n = queue.pop(0)
            if goal(n) and n is not start:
                out = []
                cur: Optional[Node] = n
                while cur is not None:
                    out.append(cur)
                    cur = prev[cur]
                return list(reversed(out))
            for t in sorted(self.edges(n, follow_exc), key=lambda x: (x.lineno, x.tag, x.kind, x.label)):
                if t in prev or (avoid(t) and not goal(t)):
                    continue
                prev[t] = n
                queue.append(t)
        return None

    def stmt_nodes(self, pred: Callable[[ast.AST], bool]) -> List[Node]:
        return [n for n in self.nodes if n.stmt is not None and pred(n.stmt)]

    def own_exprs(self, n: Node) -> List[ast.AST]:
        """Expressions evaluated *at* node n (not in nested blocks)."""
        st = n.stmt
        if st is None:
            return []
        if n.kind == "test":
            return [st.test] if isinstance(st, (ast.If, ast.While)) else [getattr(st, "subject", st)]
        if n.kind == "loop":
            return [st.iter, st.target] if isinstance(st, (ast.For, ast.AsyncFor)) else [st.test]
        if n.kind == "with":
            out: List[ast.AST] = []
            for i in st.items:
                out.append(i.context_expr)
                if i.optional_vars is not None:
                    out.append(i.optional_vars)
            return out
        if n.kind == "except":
            return [st.type] if st.type is not None else []
        if isinstance(st, (ast.FunctionDef, ast.AsyncFunctionDef, ast.ClassDef)):
            return []
        return [st]

    def calls_at(self, n: Node) -> List[ast.Call]:
        out: List[ast.Call] = []
        for e in self.own_exprs(n):
            for x in ast.walk(e):
                if isinstance(x, ast.Call):
                    out.append(x)
        return out


@dataclass
class _Ctx:
    exc: List[Node]
    ret: Node
    brk: Optional[List[Node]]
    cont: Optional[List[Node]]
    tag: str
    ret_override: Optional[List[Node]] = None

    def ret_targets(self) -> List[Node]:
        return self.ret_override if self.ret_override is not None else [self.ret]

    def derive(self, **kw) -> "_Ctx":
        d = dict(exc=self.exc, ret=self.ret, brk=self.brk, cont=self.cont, tag=self.tag,
                 ret_override=self.ret_override)
        d.update(kw)
        return _Ctx(**d)  # type: ignore[arg-type]


def describe_path(path: List[Node]) -> List[str]:
    out = []
    for n in path:
        if n.stmt is None:
            out.append(n.label)
        else:
            try:
                first = ast.unparse(n.stmt).splitlines()[0][:70]
            except Exception:
                first = "?"
            out.append(f"L{n.lineno}{('#' + n.tag) if n.tag else ''}: {first}")
    return out
