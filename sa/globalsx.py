"""E2b - process-global state inventory: module-level names and class-level attributes that are written from inside functions
(rebinding through `global`, `Class.attr = …`, `cls.attr = …`, `module.attr = …`, or in-place mutation of a module-level /
class-level container), with their writer and reader functions."""
from __future__ import annotations

import ast
from dataclasses import dataclass, field
from typing import Any, Dict, List, Optional, Set, Tuple

from sa.core import ClassInfo, FuncInfo, Program, dotted, src, walk_no_nested

MUTATORS = {"add", "update", "pop", "popitem", "clear", "setdefault", "append", "extend", "insert", "remove", "discard", "sort", "reverse"}


@dataclass
class GlobalVar:
    qualname: str  # module.name or module.Class.attr
    kind: str  # module | class
    writers: Dict[str, List[int]] = field(default_factory=dict)  # function -> lines
    readers: Dict[str, List[int]] = field(default_factory=dict)
    mutators: Dict[str, List[int]] = field(default_factory=dict)
    init: str = ""


_SHADOW_CACHE: Dict[Tuple[int, str, str], bool] = {}


def _instance_shadows(P: Program, cls: Any, attr: str) -> bool:
    """some method of the class, a base or a subclass assigns `self.<attr> = ...` (the instance then has its own object), or the class is a
    dataclass declaring the attribute as a field"""
    key = (id(P), cls.qualname, attr)
    if key not in _SHADOW_CACHE:
        fam = list(P.mro(cls)) + P.subclasses(cls.qualname)
        hit = False
        for c in fam:
            for f in c.methods.values():
                for n in walk_no_nested(f.node):
                    if isinstance(n, (ast.Assign, ast.AnnAssign)):
                        for t in (n.targets if isinstance(n, ast.Assign) else [n.target]):
                            if isinstance(t, ast.Attribute) and t.attr == attr and isinstance(t.value, ast.Name) and t.value.id == "self":
                                hit = True
        _SHADOW_CACHE[key] = hit
    return _SHADOW_CACHE[key]


def inventory(P: Program) -> Dict[str, GlobalVar]:
    out: Dict[str, GlobalVar] = {}

    def gv(q: str, kind: str, init: str = "") -> GlobalVar:
        if q not in out:
            out[q] = GlobalVar(q, kind, init=init)
        return out[q]

    # class attribute table: class qualname -> attrs
    for f in P.iter_functions():
        m = f.module
        globs: Set[str] = set()
        for n in walk_no_nested(f.node):
            if isinstance(n, ast.Global):
                globs.update(n.names)
        owner = f
        while owner.cls is None and owner.parent is not None:
            owner = owner.parent
        cls = owner.cls
        for n in walk_no_nested(f.node):
            targets: List[ast.AST] = []
            if isinstance(n, ast.Assign):
                targets = list(n.targets)
            elif isinstance(n, (ast.AugAssign, ast.AnnAssign)):
                targets = [n.target]
            for t in targets:
                for tt in (t.elts if isinstance(t, (ast.Tuple, ast.List)) else [t]):
                    if isinstance(tt, ast.Name) and tt.id in globs:
                        gv(f"{m.name}.{tt.id}", "module", src(m.assigns[tt.id]) if tt.id in m.assigns else "").writers.setdefault(f.qualname, []).append(n.lineno)
                    elif isinstance(tt, ast.Attribute):
                        base = tt.value
                        if isinstance(base, ast.Name) and base.id == "cls" and cls is not None:
                            gv(f"{_attr_owner(P, cls, tt.attr)}.{tt.attr}", "class").writers.setdefault(f.qualname, []).append(n.lineno)
                        else:
                            q = P.resolve_expr(m, base)
                            if q in P.classes:
                                gv(f"{_attr_owner(P, P.classes[q], tt.attr)}.{tt.attr}", "class").writers.setdefault(f.qualname, []).append(n.lineno)
                            elif q in P.modules and q.startswith("vtlengine"):
                                gv(f"{q}.{tt.attr}", "module").writers.setdefault(f.qualname, []).append(n.lineno)
            # in-place mutation of module-level / class-level containers: mutating method call, subscript store / del
            bases: List[ast.AST] = []
            if isinstance(n, ast.Call) and isinstance(n.func, ast.Attribute) and n.func.attr in MUTATORS:
                bases.append(n.func.value)
            if isinstance(n, (ast.Assign, ast.AugAssign, ast.AnnAssign, ast.Delete)):
                tg = n.targets if isinstance(n, (ast.Assign, ast.Delete)) else [n.target]
                for t in tg:
                    for tt in (t.elts if isinstance(t, (ast.Tuple, ast.List)) else [t]):
                        if isinstance(tt, ast.Subscript):
                            bases.append(tt.value)
            # module-level OBJECTS (instances built at import) mutated through their fields, possibly via a local alias: `g = _GRAPH; g.items[k] = v`
            for base in bases:
                root = base
                depth_ = 0
                while isinstance(root, (ast.Attribute, ast.Subscript)):
                    root = root.value
                    depth_ += 1
                if not (isinstance(root, ast.Name) and depth_ >= 1):
                    continue
                gname = None
                if root.id in m.assigns and not _is_local(f, root.id) and root.id not in f.params:
                    gname = root.id
                elif _is_local(f, root.id) and root.id not in f.params:
                    adefs = [d.value for d in walk_no_nested(f.node) if isinstance(d, (ast.Assign, ast.AnnAssign)) and d.value is not None
                             and any(isinstance(t, ast.Name) and t.id == root.id for t in (d.targets if isinstance(d, ast.Assign) else [d.target]))]
                    if len(adefs) == 1 and isinstance(adefs[0], ast.Name) and adefs[0].id in m.assigns and not _is_local(f, adefs[0].id):
                        gname = adefs[0].id
                if gname is None:
                    continue
                ini = m.assigns[gname]
                if isinstance(ini, ast.Call) and not _mutable_init(ini) and (dotted(ini.func) or "").split(".")[-1] not in ("frozenset", "tuple", "compile", "TypeVar", "getLogger", "Lock", "RLock", "local"):
                    gv(f"{m.name}.{gname}", "module", src(ini)).mutators.setdefault(f.qualname, []).append(n.lineno)
            for base in bases:
                q = None
                init = ""
                if isinstance(base, ast.Name) and base.id not in f.params and not _is_local(f, base.id):
                    if base.id in m.assigns and _mutable_init(m.assigns[base.id]):
                        q, init = f"{m.name}.{base.id}", src(m.assigns[base.id])
                    else:
                        iq = m.imports.get(base.id)
                        if iq and "." in iq:
                            head, last = iq.rsplit(".", 1)
                            if head in P.modules and last in P.modules[head].assigns and _mutable_init(P.modules[head].assigns[last]):
                                q, init = iq, src(P.modules[head].assigns[last])
                elif isinstance(base, ast.Attribute) and isinstance(base.value, ast.Name) and base.value.id == "cls" and cls is not None:
                    got = P.lookup_attr(cls, base.attr)
                    if got is not None and _mutable_init(got[1]):
                        q = f"{got[0].qualname}.{base.attr}"
                        init = src(got[1])
                elif isinstance(base, ast.Attribute) and isinstance(base.value, ast.Name) and base.value.id == "self" and cls is not None and f.params and f.params[0] == "self":
                    # a class-level mutable default reached through an instance: shared by all instances unless some method gives the instance its own (`self.X = ...`)
                    got = P.lookup_attr(cls, base.attr)
                    if got is not None and _mutable_init(got[1]) and not _instance_shadows(P, cls, base.attr):
                        q = f"{got[0].qualname}.{base.attr}"
                        init = src(got[1])
                elif isinstance(base, ast.Attribute):
                    qq = P.resolve_expr(m, base)
                    if qq and "." in qq:
                        head, last = qq.rsplit(".", 1)
                        if head in P.modules and last in P.modules[head].assigns and _mutable_init(P.modules[head].assigns[last]):
                            q, init = qq, src(P.modules[head].assigns[last])
                        elif head in P.classes:
                            got = P.lookup_attr(P.classes[head], last)
                            if got is not None and _mutable_init(got[1]):
                                q, init = f"{got[0].qualname}.{last}", src(got[1])
                if q:
                    g = gv(q, "module" if q.rsplit(".", 1)[0] in P.modules else "class", init)
                    g.mutators.setdefault(f.qualname, []).append(n.lineno)
    # readers
    for q, g in out.items():
        head, last = q.rsplit(".", 1)
        for f in P.iter_functions():
            for n in walk_no_nested(f.node):
                hit = False
                if isinstance(n, ast.Name) and isinstance(n.ctx, ast.Load) and n.id == last and head == f.module.name and not _is_local(f, last):
                    hit = True
                elif isinstance(n, ast.Name) and isinstance(n.ctx, ast.Load) and n.id == last and f.module.imports.get(last) == q:
                    hit = True
                elif isinstance(n, ast.Attribute) and isinstance(n.ctx, ast.Load) and n.attr == last:
                    base = n.value
                    if isinstance(base, ast.Name) and base.id in ("cls", "self"):
                        owner = f
                        while owner.cls is None and owner.parent is not None:
                            owner = owner.parent
                        if owner.cls is not None and head in P.classes and (owner.cls.qualname == head or P.is_subclass(owner.cls.qualname, head)):
                            hit = True
                    else:
                        bq = P.resolve_expr(f.module, base)
                        if bq == head or (bq in P.classes and head in P.classes and P.is_subclass(bq, head)):
                            hit = True
                if hit:
                    g.readers.setdefault(f.qualname, []).append(n.lineno)
    return out


def _attr_owner(P: Program, c: ClassInfo, attr: str) -> str:
    got = P.lookup_attr(c, attr)
    return got[0].qualname if got else c.qualname


def _is_local(f: FuncInfo, name: str) -> bool:
    if name in f.params:
        return True
    globs = {x for n in walk_no_nested(f.node) if isinstance(n, ast.Global) for x in n.names}
    if name in globs:
        return False
    for n in walk_no_nested(f.node):
        if isinstance(n, ast.Name) and isinstance(n.ctx, ast.Store) and n.id == name:
            return True
    return False


def _mutable_init(node: ast.AST) -> bool:
    if isinstance(node, (ast.Dict, ast.List, ast.Set, ast.ListComp, ast.DictComp, ast.SetComp)):
        return True
    if isinstance(node, ast.Call):
        d = dotted(node.func) or ""
        return d.split(".")[-1] in ("dict", "list", "set", "defaultdict", "OrderedDict", "WeakSet", "WeakValueDictionary", "deque", "Counter")
    return False


# ---------------------------------------------------------------------------------------------------------------
# memoised functions: process-lifetime state by another name
CACHE_DECOS = {"lru_cache", "cache", "cached_property", "functools.lru_cache", "functools.cache", "functools.cached_property"}

_INV: Dict[int, Dict[str, GlobalVar]] = {}

MEMO_REVIEWED: Dict[str, str] = {
    "vtlengine.DataTypes._time_checking._check_time_period_cached": "pure function of its string argument returning a str (immutable)",
    "vtlengine.duckdb_transpiler.sql._read_full_sql": "reads the SQL library files shipped with the package (constant for the process) and returns a str",
    "vtlengine.duckdb_transpiler.sql._macro_graph": "parses that constant text into a _MacroGraph that callers only read (dependency closure lookups); no caller mutates it",
    "vtlengine.duckdb_transpiler.Transpiler.operators._compiled": "re.compile of its argument: a pure function; compiled patterns are immutable",
}


def memo_findings(P: Program, prefixes: Tuple[str, ...] = ("vtlengine",)) -> List[Tuple[FuncInfo, str, int]]:
    """(function, why it is unsafe, line) for every memoised function that is not in the reviewed table and whose cached
    result is shared mutable state or depends on more than its arguments; pure/immutable ones are accepted silently."""
    out: List[Tuple[FuncInfo, str, int]] = []
    for f in P.iter_functions():
        if not f.module.name.startswith(prefixes):
            continue
        decos = [d for d in f.decorators if d in CACHE_DECOS or d.split(".")[-1] in CACHE_DECOS]
        if not decos or f.qualname in MEMO_REVIEWED:
            continue
        why = None
        line = f.node.lineno
        for r in walk_no_nested(f.node):
            if isinstance(r, ast.Return) and r.value is not None:
                v = r.value
                if isinstance(v, ast.Name):
                    ds = [n.value for n in walk_no_nested(f.node) if isinstance(n, (ast.Assign, ast.AnnAssign)) and n.value is not None
                          and any(isinstance(t, ast.Name) and t.id == v.id for t in (n.targets if isinstance(n, ast.Assign) else [n.target]))]
                    v = ds[-1] if ds else v
                if isinstance(v, (ast.Set, ast.List, ast.Dict, ast.SetComp, ast.ListComp, ast.DictComp)) or \
                        (isinstance(v, ast.Call) and isinstance(v.func, ast.Attribute) and v.func.attr in ("intersection", "union", "difference", "copy", "deepcopy")) or \
                        (isinstance(v, ast.Call) and isinstance(v.func, ast.Name) and v.func.id in ("set", "list", "dict", "defaultdict")):
                    why, line = f"returns a mutable container (`{src(r.value)[:50]}`) that every caller shares", r.lineno
                elif isinstance(v, ast.Call):
                    q = P.resolve_expr(f.module, v.func)
                    if (q in P.classes and not q.startswith("vtlengine.Exceptions")) or (isinstance(v.func, ast.Attribute) and v.func.attr.startswith("visit")):
                        why, line = f"returns an object built per call (`{src(r.value)[:50]}`) that callers go on to modify; a later caller gets the modified object", r.lineno
        reads_env = any(isinstance(c, ast.Call) and src(c.func) in ("os.getenv", "os.environ.get") or (isinstance(c, ast.Subscript) and src(c.value) == "os.environ") for c in ast.walk(f.node))
        if why is None and reads_env:
            why = "reads the process environment: the first answer is frozen for the life of the process"
        reads_file = next((c for c in ast.walk(f.node) if isinstance(c, ast.Call) and (
            (isinstance(c.func, ast.Name) and c.func.id == "open")
            or (isinstance(c.func, ast.Attribute) and c.func.attr in ("read_text", "read_bytes", "open", "stat", "exists", "is_file", "getsize", "getmtime", "sniff", "read_csv", "readline", "read")))), None)
        if why is None and reads_file is not None:
            why, line = (f"reads a file (`{src(reads_file)[:50]}`) and is memoised on its arguments (the path, not the content): when the file is rewritten the first answer "
                         f"is still returned"), reads_file.lineno
        if why is None:
            # depends (through in-repo callees, depth <= 3) on a process-global that something writes: the cache key omits it
            inv = _INV.get(id(P))
            if inv is None:
                inv = _INV.setdefault(id(P), inventory(P))
            readers: Dict[str, str] = {}
            for q, gv in inv.items():
                if q == "vtlengine.Exceptions.dataset_output":
                    continue  # only decorates error messages
                if gv.writers or gv.mutators:
                    for r_ in gv.readers:
                        readers[r_] = q
            seen: Set[str] = set()
            frontier = [(f, 0)]
            while frontier and why is None:
                g_, d_ = frontier.pop(0)
                if g_.qualname in seen:
                    continue
                seen.add(g_.qualname)
                if g_.qualname in readers:
                    why = (f"its result depends on the process-global `{readers[g_.qualname]}` (read in {g_.name}), which is not part of the cache key: after the global changes, "
                           f"calls with the same arguments keep returning the result computed under the old value")
                    break
                if d_ < 3:
                    for c in walk_no_nested(g_.node):
                        if isinstance(c, ast.Call):
                            targets = list(P.resolve_call(g_, c)[:4])
                            if not targets and isinstance(c.func, ast.Attribute):
                                # method on an object of unknown class: every in-repo method of that name (over-approximation)
                                targets = [x.qualname for x in P.iter_functions() if x.name == c.func.attr and x.cls is not None][:6]
                            for tq in targets:
                                h = P.functions.get(tq)
                                if h is not None:
                                    frontier.append((h, d_ + 1))
        if why is not None:
            out.append((f, why, line))
    return out


# ---------------------------------------------------------------------------------------------------------------
# long-lived instances of stateful in-repo classes (a visitor kept at module or class level is process-global state)
def stateful_attrs(P: Program, cq: str) -> Dict[str, Tuple[str, int]]:
    """instance attributes of class `cq` (incl. in-repo bases) that some method OTHER than __init__/__post_init__ rebinds or
    mutates in place: attr -> (method qualname, line)"""
    out: Dict[str, Tuple[str, int]] = {}
    ci = P.classes.get(cq)
    if ci is None:
        return out
    for c in P.mro(ci):
        for name, f in c.methods.items():
            if name in ("__init__", "__post_init__", "__new__"):
                continue
            for n in walk_no_nested(f.node):
                tg: List[ast.AST] = []
                if isinstance(n, ast.Assign):
                    tg = list(n.targets)
                elif isinstance(n, (ast.AugAssign, ast.AnnAssign)):
                    tg = [n.target]
                for t in tg:
                    for tt in (t.elts if isinstance(t, (ast.Tuple, ast.List)) else [t]):
                        base = tt.value if isinstance(tt, ast.Subscript) else tt
                        if isinstance(base, ast.Attribute) and isinstance(base.value, ast.Name) and base.value.id == "self":
                            out.setdefault(base.attr, (f.qualname, n.lineno))
                if isinstance(n, ast.Call) and isinstance(n.func, ast.Attribute) and n.func.attr in MUTATORS:
                    b = n.func.value
                    if isinstance(b, ast.Attribute) and isinstance(b.value, ast.Name) and b.value.id == "self":
                        out.setdefault(b.attr, (f.qualname, n.lineno))
    return out


@dataclass
class SharedInstance:
    qualname: str  # module.NAME or module.Class.attr
    cls: str
    file: str
    line: int
    attrs: Dict[str, Tuple[str, int]]
    users: Dict[str, List[int]] = field(default_factory=dict)


def shared_instances(P: Program) -> List[SharedInstance]:
    """module-level / class-level names bound (at import time) to an instance of an in-repo class that keeps state between
    method calls.  Names REBOUND from inside functions (`global X; X = C()`, `cls.attr = C()`) are the inventory's business
    (they have a writer function) and are not repeated here."""
    found: List[SharedInstance] = []

    def consider(q: str, value: ast.AST, m, line: int) -> None:
        if not isinstance(value, ast.Call):
            return
        cq = P.resolve_expr(m, value.func)
        if cq not in P.classes:
            return
        attrs = stateful_attrs(P, cq)
        if attrs:
            found.append(SharedInstance(q, cq, m.rel, line, attrs))
    for m in P.modules.values():
        for st in m.tree.body:
            if isinstance(st, (ast.Assign, ast.AnnAssign)) and getattr(st, "value", None) is not None:
                for t in (st.targets if isinstance(st, ast.Assign) else [st.target]):
                    if isinstance(t, ast.Name):
                        consider(f"{m.name}.{t.id}", st.value, m, st.lineno)
    for c in P.classes.values():
        for st in c.node.body:
            if isinstance(st, (ast.Assign, ast.AnnAssign)) and getattr(st, "value", None) is not None:
                for t in (st.targets if isinstance(st, ast.Assign) else [st.target]):
                    if isinstance(t, ast.Name):
                        consider(f"{c.qualname}.{t.id}", st.value, c.module, st.lineno)
    # users: functions that load the name
    for si in found:
        head, last = si.qualname.rsplit(".", 1)
        for f in P.iter_functions():
            for n in walk_no_nested(f.node):
                if isinstance(n, ast.Name) and isinstance(n.ctx, ast.Load) and n.id == last and not _is_local(f, last) \
                        and (f.module.name == head or f.module.imports.get(last) == si.qualname):
                    si.users.setdefault(f.qualname, []).append(n.lineno)
    return found


def report_shared_instances(P: Program, rep, rule: str, only_subclasses_of: Optional[str] = None, what: str = "") -> int:
    """shared rule: no instance of a stateful in-repo class lives longer than one API call (expected count on a sound tree: 0;
    the positive example is the seeded change that hoists a renderer to module level, run by the thorough self-test)"""
    from sa.core import Finding
    n = 0
    for si in shared_instances(P):
        if only_subclasses_of is not None and not (si.cls == only_subclasses_of or P.is_subclass(si.cls, only_subclasses_of)):
            continue
        n += 1
        a0 = sorted(si.attrs)[:4]
        m0, l0 = si.attrs[a0[0]]
        rep.add(Finding(rule, f"{rule}/shared-instance/{si.qualname}", si.file, si.line, si.qualname,
                        f"`{si.qualname}` keeps ONE {si.cls.split('.')[-1]} for the whole process, but the class carries per-call state ({', '.join(a0)}; e.g. written by "
                        f"{m0.split('.')[-1]}:{l0}) that is only reset on the normal path: after a call that raised mid-way, or while another thread is inside it, "
                        f"{what or 'the next call starts from that state'} (used by {sorted(si.users)[:3]})"))
    return n


def module_level_objects(P: Program, module_prefixes: Tuple[str, ...]) -> List[Tuple[str, str, str, int, List[str]]]:
    """(qualified name, class, file, line, user functions) of every module-level / class-level name in the given modules bound
    at import time to an instance of an in-repo class that is mutable (not an Enum member, not an exception, not a frozen
    dataclass): one object shared by every call that returns or embeds it"""
    out: List[Tuple[str, str, str, int, List[str]]] = []

    def mutable(cq: str) -> bool:
        ci = P.classes[cq]
        bases = P.all_bases(ci)
        if any(b.split(".")[-1] in ("Enum", "IntEnum", "StrEnum", "Exception", "BaseException", "NamedTuple") for b in bases):
            return False
        for d in ci.node.decorator_list:
            if isinstance(d, ast.Call) and (dotted(d.func) or "").endswith("dataclass") and any(k.arg == "frozen" and isinstance(k.value, ast.Constant) and k.value.value is True for k in d.keywords):
                return False
        return True
    for m in P.modules.values():
        if not m.name.startswith(module_prefixes):
            continue
        holders: List[Tuple[str, List[ast.stmt]]] = [(m.name, m.tree.body)] + [(c.qualname, c.node.body) for c in P.classes.values() if c.module is m]
        for owner, body in holders:
            for st in body:
                if isinstance(st, (ast.Assign, ast.AnnAssign)) and isinstance(getattr(st, "value", None), ast.Call):
                    cq = P.resolve_expr(m, st.value.func)
                    if cq in P.classes and mutable(cq):
                        for t in (st.targets if isinstance(st, ast.Assign) else [st.target]):
                            if isinstance(t, ast.Name):
                                users = sorted({f.qualname for f in P.iter_functions() if f.module is m or f.module.imports.get(t.id) == f"{m.name}.{t.id}"
                                                for n in walk_no_nested(f.node) if isinstance(n, ast.Name) and n.id == t.id and isinstance(n.ctx, ast.Load) and not _is_local(f, t.id)})
                                out.append((f"{owner}.{t.id}", cq, m.rel, st.lineno, users))
    return out


def handrolled_memos(P: Program, prefixes: Tuple[str, ...] = ("vtlengine",)) -> List[Tuple[FuncInfo, str, int, List[str]]]:
    """Functions that memoise by hand: a container that outlives the call (attribute of self / cls, module global) is looked up under
    a key (`C.get(K)`, `K in C`, `C[K]`) and later assigned `C[K] = <computed>` in the same function.  Returned: (function, container,
    line of the store, parameters that the computed value depends on but the key does not contain).  A non-empty list means two calls
    that differ only in such a parameter get each other's answer."""
    out: List[Tuple[FuncInfo, str, int, List[str]]] = []
    for f in P.iter_functions():
        if not f.module.name.startswith(prefixes):
            continue
        stores = []
        for n in walk_no_nested(f.node):
            if isinstance(n, ast.Assign) and len(n.targets) == 1 and isinstance(n.targets[0], ast.Subscript):
                c = n.targets[0].value
                if (isinstance(c, ast.Attribute) and isinstance(c.value, ast.Name) and c.value.id in ("self", "cls")) or \
                        (isinstance(c, ast.Name) and c.id in f.module.assigns and c.id not in f.params and not _is_local(f, c.id)):
                    stores.append((n, src(c), n.targets[0].slice))
        for st, cont, key in stores:
            looked = any((isinstance(x, ast.Call) and isinstance(x.func, ast.Attribute) and x.func.attr == "get" and src(x.func.value) == cont and x.args and src(x.args[0]) == src(key))
                         or (isinstance(x, ast.Compare) and any(isinstance(o, (ast.In, ast.NotIn)) for o in x.ops) and src(x.left) == src(key) and src(x.comparators[0]) == cont)
                         or (isinstance(x, ast.Subscript) and isinstance(x.ctx, ast.Load) and src(x.value) == cont and src(x.slice) == src(key))
                         for x in walk_no_nested(f.node))
            if not looked:
                continue

            def expand(e: ast.AST, depth: int = 0) -> Set[str]:
                names: Set[str] = set()
                for x in ast.walk(e):
                    if isinstance(x, ast.Name) and isinstance(x.ctx, ast.Load):
                        defs = [d.value for d in walk_no_nested(f.node) if isinstance(d, (ast.Assign, ast.AnnAssign)) and d.value is not None and d is not st
                                and any(isinstance(t, ast.Name) and t.id == x.id for t in (d.targets if isinstance(d, ast.Assign) else [d.target]))]
                        if defs and depth < 4 and x.id not in f.params:
                            for d in defs:
                                names |= expand(d, depth + 1)
                        else:
                            names.add(x.id)
                return names
            key_names = expand(key)
            val_names = expand(st.value)
            params = [p_ for p_ in f.params if p_ not in ("self", "cls")]
            a = f.node.args  # type: ignore[attr-defined]
            params += [x.arg for x in a.kwonlyargs if x.arg not in params] + ([a.vararg.arg] if a.vararg and a.vararg.arg not in params else []) + ([a.kwarg.arg] if a.kwarg else [])
            omitted = [p_ for p_ in params if p_ in val_names and p_ not in key_names]
            out.append((f, cont, st.lineno, omitted))
    return out


HANDROLLED_REVIEWED: Dict[str, str] = {
    "vtlengine.DataTypes.TimeHandling.SingletonMeta.__call__": "singleton metaclass: one instance per class by design; its only user (PeriodDuration) is constructed without arguments",
}


def report_handrolled_memos(P: Program, rep: Any, rule: str, prefixes: Tuple[str, ...], consequence: str) -> None:
    n = 0
    for f, cont, line, omitted in handrolled_memos(P, prefixes):
        n += 1
        key = f"handrolled-memo/{f.qualname}/{cont}"
        rep.instance(rule, key, nontrivial=bool(omitted), sample={"function": f.qualname, "container": cont, "parameters missing from the key": omitted} if omitted else None)
        if not omitted:
            continue
        if f.qualname in HANDROLLED_REVIEWED:
            rep.exemption(rule, key, HANDROLLED_REVIEWED[f.qualname])
            continue
        from sa.core import Finding
        rep.add(Finding(rule, f"{rule}/{key}", f.module.rel, line, f.qualname,
                        f"{f.name} keeps its result in `{cont}` under a key that leaves out the parameter(s) {omitted} the result depends on: a later call that differs only there "
                        f"is answered with the earlier call's result - {consequence}"))
    rep.instance(rule, "handrolled-memos-examined", nontrivial=False, sample={"lookup-and-store sites": n})


SEQUENTIALLY_HARMLESS = {
    "vtlengine.ViralPropagation._current_registry": "replaced by InterpreterAnalyzer.visit_Start at the start of every semantic pass, before any reader of the same run: one call "
                                                    "after another, each run reads the registry it installed itself (the interleaved case is C17's open finding)",
    "vtlengine.DataTypes.TimeHandling.SingletonMeta._instances": "singleton metaclass: one instance per class by design; its only user (PeriodDuration) is constructed without arguments "
                                                                 "and carries no per-call state",
}


def report_written_globals(P: Program, rep: Any, rule: str, prefixes: Tuple[str, ...], consequence: str, floor: int = 1) -> None:
    """Sequential form of the shared-state inventory (C17 R17.2), restricted to the modules of one property: a module-level name or class
    attribute that a FUNCTION writes or mutates outlives the call, so what a later call computes can depend on the calls before it.  The
    globals C17 classifies as harmless (one reason each) are exempt here for the same reason."""
    from sa.checks.c17 import CONFINED, SAFE, SAFE_IF_READERS_UNREACHABLE
    from sa.core import Finding
    G = inventory(P)
    n = 0
    for q, gvar in sorted(G.items()):
        if not q.startswith(prefixes):
            continue
        n += 1
        writers = sorted(set(gvar.writers) | set(gvar.mutators))
        rep.instance(rule, f"global/{q}", nontrivial=bool(writers), sample={"global": q, "written_by": writers[:3]} if writers else None)
        if not writers:
            continue
        why = SAFE.get(q) or (SAFE_IF_READERS_UNREACHABLE.get(q) or (None, None))[1] or (CONFINED.get(q) or (None, None))[1] or SEQUENTIALLY_HARMLESS.get(q)
        if why:
            rep.exemption(rule, f"global/{q}", why)
            continue
        w0 = P.functions.get(writers[0])
        rep.add(Finding(rule, f"{rule}/global/{q}", w0.module.rel if w0 else "", (gvar.writers.get(writers[0]) or gvar.mutators.get(writers[0]) or [0])[0], writers[0],
                        f"process-global `{q}` is written by {', '.join(w.split('.')[-1] for w in writers[:3])} and outlives the call: {consequence}"))
    rep.instance(rule, "inventory", sample={"globals in the whole package": len(G), "in the modules of this rule": n})
    rep.floor(f"{rule} globals inventoried (whole package)", len(G), 10)
    rep.floor(f"{rule} globals inventoried", n, floor)
