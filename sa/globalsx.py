"""E2b - process-global state inventory: module-level names and class-level attributes that are written from inside functions
(rebinding through `global`, `Class.attr = …`, `cls.attr = …`, `module.attr = …`, or in-place mutation of a module-level /
class-level container), with their writer and reader functions."""
from __future__ import annotations

import ast
from dataclasses import dataclass, field
from typing import Dict, List, Optional, Set, Tuple

from sa.core import ClassInfo, FuncInfo, Program, dotted, src, walk_no_nested

MUTATORS = {"add", "update", "pop", "popitem", "clear", "setdefault", "append", "extend", "insert", "remove", "discard", "sort", "reverse"}


@dataclass
class GlobalVar:
    qualname: str  # module.name or module.Class.attr
    kind: str  # module | class
    writers: Dict[str, List[int]] = field(default_factory=dict)  # function -> lines
    readers: Dict[str, List[int]] = field(default_factory=dict)
    mutators: Dict[str, List[int]] = field(default_factory=dict)
    init: str = ""


def inventory(P: Program) -> Dict[str, GlobalVar]:
    out: Dict[str, GlobalVar] = {}

    def gv(q: str, kind: str, init: str = "") -> GlobalVar:
        if q not in out:
            out[q] = GlobalVar(q, kind, init=init)
        return out[q]

    # class attribute table: class qualname -> attrs
    for f in P.iter_functions():
        m = f.module
        globs: Set[str] = set()
        for n in walk_no_nested(f.node):
            if isinstance(n, ast.Global):
                globs.update(n.names)
        owner = f
        while owner.cls is None and owner.parent is not None:
            owner = owner.parent
        cls = owner.cls
        for n in walk_no_nested(f.node):
            targets: List[ast.AST] = []
            if isinstance(n, ast.Assign):
                targets = list(n.targets)
            elif isinstance(n, (ast.AugAssign, ast.AnnAssign)):
                targets = [n.target]
            for t in targets:
                for tt in (t.elts if isinstance(t, (ast.Tuple, ast.List)) else [t]):
                    if isinstance(tt, ast.Name) and tt.id in globs:
                        gv(f"{m.name}.{tt.id}", "module", src(m.assigns[tt.id]) if tt.id in m.assigns else "").writers.setdefault(f.qualname, []).append(n.lineno)
                    elif isinstance(tt, ast.Attribute):
                        base = tt.value
                        if isinstance(base, ast.Name) and base.id == "cls" and cls is not None:
                            gv(f"{_attr_owner(P, cls, tt.attr)}.{tt.attr}", "class").writers.setdefault(f.qualname, []).append(n.lineno)
                        else:
                            q = P.resolve_expr(m, base)
                            if q in P.classes:
                                gv(f"{_attr_owner(P, P.classes[q], tt.attr)}.{tt.attr}", "class").writers.setdefault(f.qualname, []).append(n.lineno)
                            elif q in P.modules and q.startswith("vtlengine"):
                                gv(f"{q}.{tt.attr}", "module").writers.setdefault(f.qualname, []).append(n.lineno)
            # in-place mutation of module-level / class-level containers: mutating method call, subscript store / del
            bases: List[ast.AST] = []
            if isinstance(n, ast.Call) and isinstance(n.func, ast.Attribute) and n.func.attr in MUTATORS:
                bases.append(n.func.value)
            if isinstance(n, (ast.Assign, ast.AugAssign, ast.AnnAssign, ast.Delete)):
                tg = n.targets if isinstance(n, (ast.Assign, ast.Delete)) else [n.target]
                for t in tg:
                    for tt in (t.elts if isinstance(t, (ast.Tuple, ast.List)) else [t]):
                        if isinstance(tt, ast.Subscript):
                            bases.append(tt.value)
            for base in bases:
                q = None
                init = ""
                if isinstance(base, ast.Name) and base.id not in f.params and not _is_local(f, base.id):
                    if base.id in m.assigns and _mutable_init(m.assigns[base.id]):
                        q, init = f"{m.name}.{base.id}", src(m.assigns[base.id])
                    else:
                        iq = m.imports.get(base.id)
                        if iq and "." in iq:
                            head, last = iq.rsplit(".", 1)
                            if head in P.modules and last in P.modules[head].assigns and _mutable_init(P.modules[head].assigns[last]):
                                q, init = iq, src(P.modules[head].assigns[last])
                elif isinstance(base, ast.Attribute) and isinstance(base.value, ast.Name) and base.value.id == "cls" and cls is not None:
                    got = P.lookup_attr(cls, base.attr)
                    if got is not None and _mutable_init(got[1]):
                        q = f"{got[0].qualname}.{base.attr}"
                        init = src(got[1])
                elif isinstance(base, ast.Attribute):
                    qq = P.resolve_expr(m, base)
                    if qq and "." in qq:
                        head, last = qq.rsplit(".", 1)
                        if head in P.modules and last in P.modules[head].assigns and _mutable_init(P.modules[head].assigns[last]):
                            q, init = qq, src(P.modules[head].assigns[last])
                        elif head in P.classes:
                            got = P.lookup_attr(P.classes[head], last)
                            if got is not None and _mutable_init(got[1]):
                                q, init = f"{got[0].qualname}.{last}", src(got[1])
                if q:
                    g = gv(q, "module" if q.rsplit(".", 1)[0] in P.modules else "class", init)
                    g.mutators.setdefault(f.qualname, []).append(n.lineno)
    # readers
    for q, g in out.items():
        head, last = q.rsplit(".", 1)
        for f in P.iter_functions():
            for n in walk_no_nested(f.node):
                hit = False
                if isinstance(n, ast.Name) and isinstance(n.ctx, ast.Load) and n.id == last and head == f.module.name and not _is_local(f, last):
                    hit = True
                elif isinstance(n, ast.Name) and isinstance(n.ctx, ast.Load) and n.id == last and f.module.imports.get(last) == q:
                    hit = True
                elif isinstance(n, ast.Attribute) and isinstance(n.ctx, ast.Load) and n.attr == last:
                    base = n.value
                    if isinstance(base, ast.Name) and base.id in ("cls", "self"):
                        owner = f
                        while owner.cls is None and owner.parent is not None:
                            owner = owner.parent
                        if owner.cls is not None and head in P.classes and (owner.cls.qualname == head or P.is_subclass(owner.cls.qualname, head)):
                            hit = True
                    else:
                        bq = P.resolve_expr(f.module, base)
                        if bq == head or (bq in P.classes and head in P.classes and P.is_subclass(bq, head)):
                            hit = True
                if hit:
                    g.readers.setdefault(f.qualname, []).append(n.lineno)
    return out


def _attr_owner(P: Program, c: ClassInfo, attr: str) -> str:
    got = P.lookup_attr(c, attr)
    return got[0].qualname if got else c.qualname


def _is_local(f: FuncInfo, name: str) -> bool:
    if name in f.params:
        return True
    globs = {x for n in walk_no_nested(f.node) if isinstance(n, ast.Global) for x in n.names}
    if name in globs:
        return False
    for n in walk_no_nested(f.node):
        if isinstance(n, ast.Name) and isinstance(n.ctx, ast.Store) and n.id == name:
            return True
    return False


def _mutable_init(node: ast.AST) -> bool:
    if isinstance(node, (ast.Dict, ast.List, ast.Set, ast.ListComp, ast.DictComp, ast.SetComp)):
        return True
    if isinstance(node, ast.Call):
        d = dotted(node.func) or ""
        return d.split(".")[-1] in ("dict", "list", "set", "defaultdict", "OrderedDict", "WeakSet", "WeakValueDictionary", "deque", "Counter")
    return False


# ---------------------------------------------------------------------------------------------------------------
# memoised functions: process-lifetime state by another name
CACHE_DECOS = {"lru_cache", "cache", "cached_property", "functools.lru_cache", "functools.cache", "functools.cached_property"}

_INV: Dict[int, Dict[str, GlobalVar]] = {}

MEMO_REVIEWED: Dict[str, str] = {
    "vtlengine.DataTypes._time_checking._check_time_period_cached": "pure function of its string argument returning a str (immutable)",
    "vtlengine.duckdb_transpiler.sql._read_full_sql": "reads the SQL library files shipped with the package (constant for the process) and returns a str",
    "vtlengine.duckdb_transpiler.sql._macro_graph": "parses that constant text into a _MacroGraph that callers only read (dependency closure lookups); no caller mutates it",
    "vtlengine.duckdb_transpiler.Transpiler.operators._compiled": "re.compile of its argument: a pure function; compiled patterns are immutable",
}


def memo_findings(P: Program, prefixes: Tuple[str, ...] = ("vtlengine",)) -> List[Tuple[FuncInfo, str, int]]:
    """(function, why it is unsafe, line) for every memoised function that is not in the reviewed table and whose cached
    result is shared mutable state or depends on more than its arguments; pure/immutable ones are accepted silently."""
    out: List[Tuple[FuncInfo, str, int]] = []
    for f in P.iter_functions():
        if not f.module.name.startswith(prefixes):
            continue
        decos = [d for d in f.decorators if d in CACHE_DECOS or d.split(".")[-1] in CACHE_DECOS]
        if not decos or f.qualname in MEMO_REVIEWED:
            continue
        why = None
        line = f.node.lineno
        for r in walk_no_nested(f.node):
            if isinstance(r, ast.Return) and r.value is not None:
                v = r.value
                if isinstance(v, ast.Name):
                    ds = [n.value for n in walk_no_nested(f.node) if isinstance(n, (ast.Assign, ast.AnnAssign)) and n.value is not None
                          and any(isinstance(t, ast.Name) and t.id == v.id for t in (n.targets if isinstance(n, ast.Assign) else [n.target]))]
                    v = ds[-1] if ds else v
                if isinstance(v, (ast.Set, ast.List, ast.Dict, ast.SetComp, ast.ListComp, ast.DictComp)) or \
                        (isinstance(v, ast.Call) and isinstance(v.func, ast.Attribute) and v.func.attr in ("intersection", "union", "difference", "copy", "deepcopy")) or \
                        (isinstance(v, ast.Call) and isinstance(v.func, ast.Name) and v.func.id in ("set", "list", "dict", "defaultdict")):
                    why, line = f"returns a mutable container (`{src(r.value)[:50]}`) that every caller shares", r.lineno
                elif isinstance(v, ast.Call):
                    q = P.resolve_expr(f.module, v.func)
                    if (q in P.classes and not q.startswith("vtlengine.Exceptions")) or (isinstance(v.func, ast.Attribute) and v.func.attr.startswith("visit")):
                        why, line = f"returns an object built per call (`{src(r.value)[:50]}`) that callers go on to modify; a later caller gets the modified object", r.lineno
        reads_env = any(isinstance(c, ast.Call) and src(c.func) in ("os.getenv", "os.environ.get") or (isinstance(c, ast.Subscript) and src(c.value) == "os.environ") for c in ast.walk(f.node))
        if why is None and reads_env:
            why = "reads the process environment: the first answer is frozen for the life of the process"
        if why is None:
            # depends (through in-repo callees, depth <= 3) on a process-global that something writes: the cache key omits it
            inv = _INV.get(id(P))
            if inv is None:
                inv = _INV.setdefault(id(P), inventory(P))
            readers: Dict[str, str] = {}
            for q, gv in inv.items():
                if q == "vtlengine.Exceptions.dataset_output":
                    continue  # only decorates error messages
                if gv.writers or gv.mutators:
                    for r_ in gv.readers:
                        readers[r_] = q
            seen: Set[str] = set()
            frontier = [(f, 0)]
            while frontier and why is None:
                g_, d_ = frontier.pop(0)
                if g_.qualname in seen:
                    continue
                seen.add(g_.qualname)
                if g_.qualname in readers:
                    why = (f"its result depends on the process-global `{readers[g_.qualname]}` (read in {g_.name}), which is not part of the cache key: after the global changes, "
                           f"calls with the same arguments keep returning the result computed under the old value")
                    break
                if d_ < 3:
                    for c in walk_no_nested(g_.node):
                        if isinstance(c, ast.Call):
                            targets = list(P.resolve_call(g_, c)[:4])
                            if not targets and isinstance(c.func, ast.Attribute):
                                # method on an object of unknown class: every in-repo method of that name (over-approximation)
                                targets = [x.qualname for x in P.iter_functions() if x.name == c.func.attr and x.cls is not None][:6]
                            for tq in targets:
                                h = P.functions.get(tq)
                                if h is not None:
                                    frontier.append((h, d_ + 1))
        if why is not None:
            out.append((f, why, line))
    return out
