"""E2b - process-global state inventory: module-level names and class-level attributes that are written from inside functions
(rebinding through `global`, `Class.attr = …`, `cls.attr = …`, `module.attr = …`, or in-place mutation of a module-level /
class-level container), with their writer and reader functions."""
from __future__ import annotations

import ast
from dataclasses import dataclass, field
from typing import Dict, List, Optional, Set, Tuple

from sa.core import ClassInfo, FuncInfo, Program, dotted, src, walk_no_nested

MUTATORS = {"add", "update", "pop", "popitem", "clear", "setdefault", "append", "extend", "insert", "remove", "discard", "sort", "reverse"}


@dataclass
class GlobalVar:
    qualname: str  # module.name or module.Class.attr
    kind: str  # module | class
    writers: Dict[str, List[int]] = field(default_factory=dict)  # function -> lines
    readers: Dict[str, List[int]] = field(default_factory=dict)
    mutators: Dict[str, List[int]] = field(default_factory=dict)
    init: str = ""


def inventory(P: Program) -> Dict[str, GlobalVar]:
    out: Dict[str, GlobalVar] = {}

    def gv(q: str, kind: str, init: str = "") -> GlobalVar:
        if q not in out:
            out[q] = GlobalVar(q, kind, init=init)
        return out[q]

    # class attribute table: class qualname -> attrs
    for f in P.iter_functions():
        m = f.module
        globs: Set[str] = set()
        for n in walk_no_nested(f.node):
            if isinstance(n, ast.Global):
                globs.update(n.names)
        owner = f
        while owner.cls is None and owner.parent is not None:
            owner = owner.parent
        cls = owner.cls
        for n in walk_no_nested(f.node):
            targets: List[ast.AST] = []
            if isinstance(n, ast.Assign):
                targets = list(n.targets)
            elif isinstance(n, (ast.AugAssign, ast.AnnAssign)):
                targets = [n.target]
            for t in targets:
                for tt in (t.elts if isinstance(t, (ast.Tuple, ast.List)) else [t]):
                    if isinstance(tt, ast.Name) and tt.id in globs:
                        gv(f"{m.name}.{tt.id}", "module", src(m.assigns[tt.id]) if tt.id in m.assigns else "").writers.setdefault(f.qualname, []).append(n.lineno)
                    elif isinstance(tt, ast.Attribute):
                        base = tt.value
                        if isinstance(base, ast.Name) and base.id == "cls" and cls is not None:
                            gv(f"{_attr_owner(P, cls, tt.attr)}.{tt.attr}", "class").writers.setdefault(f.qualname, []).append(n.lineno)
                        else:
                            q = P.resolve_expr(m, base)
                            if q in P.classes:
                                gv(f"{_attr_owner(P, P.classes[q], tt.attr)}.{tt.attr}", "class").writers.setdefault(f.qualname, []).append(n.lineno)
                            elif q in P.modules and q.startswith("vtlengine"):
                                gv(f"{q}.{tt.attr}", "module").writers.setdefault(f.qualname, []).append(n.lineno)
            # in-place mutation of module-level / class-level containers: mutating method call, subscript store / del
            bases: List[ast.AST] = []
            if isinstance(n, ast.Call) and isinstance(n.func, ast.Attribute) and n.func.attr in MUTATORS:
                bases.append(n.func.value)
            if isinstance(n, (ast.Assign, ast.AugAssign, ast.AnnAssign, ast.Delete)):
                tg = n.targets if isinstance(n, (ast.Assign, ast.Delete)) else [n.target]
                for t in tg:
                    for tt in (t.elts if isinstance(t, (ast.Tuple, ast.List)) else [t]):
                        if isinstance(tt, ast.Subscript):
                            bases.append(tt.value)
            for base in bases:
                q = None
                init = ""
                if isinstance(base, ast.Name) and base.id not in f.params and not _is_local(f, base.id):
                    if base.id in m.assigns and _mutable_init(m.assigns[base.id]):
                        q, init = f"{m.name}.{base.id}", src(m.assigns[base.id])
                    else:
                        iq = m.imports.get(base.id)
                        if iq and "." in iq:
                            head, last = iq.rsplit(".", 1)
                            if head in P.modules and last in P.modules[head].assigns and _mutable_init(P.modules[head].assigns[last]):
                                q, init = iq, src(P.modules[head].assigns[last])
                elif isinstance(base, ast.Attribute) and isinstance(base.value, ast.Name) and base.value.id == "cls" and cls is not None:
                    got = P.lookup_attr(cls, base.attr)
                    if got is not None and _mutable_init(got[1]):
                        q = f"{got[0].qualname}.{base.attr}"
                        init = src(got[1])
                elif isinstance(base, ast.Attribute):
                    qq = P.resolve_expr(m, base)
                    if qq and "." in qq:
                        head, last = qq.rsplit(".", 1)
                        if head in P.modules and last in P.modules[head].assigns and _mutable_init(P.modules[head].assigns[last]):
                            q, init = qq, src(P.modules[head].assigns[last])
                        elif head in P.classes:
                            got = P.lookup_attr(P.classes[head], last)
                            if got is not None and _mutable_init(got[1]):
                                q, init = f"{got[0].qualname}.{last}", src(got[1])
                if q:
                    g = gv(q, "module" if q.rsplit(".", 1)[0] in P.modules else "class", init)
                    g.mutators.setdefault(f.qualname, []).append(n.lineno)
    # readers
    for q, g in out.items():
        head, last = q.rsplit(".", 1)
        for f in P.iter_functions():
            for n in walk_no_nested(f.node):
                hit = False
                if isinstance(n, ast.Name) and isinstance(n.ctx, ast.Load) and n.id == last and head == f.module.name and not _is_local(f, last):
                    hit = True
                elif isinstance(n, ast.Name) and isinstance(n.ctx, ast.Load) and n.id == last and f.module.imports.get(last) == q:
                    hit = True
                elif isinstance(n, ast.Attribute) and isinstance(n.ctx, ast.Load) and n.attr == last:
                    base = n.value
                    if isinstance(base, ast.Name) and base.id in ("cls", "self"):
                        owner = f
                        while owner.cls is None and owner.parent is not None:
                            owner = owner.parent
                        if owner.cls is not None and head in P.classes and (owner.cls.qualname == head or P.is_subclass(owner.cls.qualname, head)):
                            hit = True
                    else:
                        bq = P.resolve_expr(f.module, base)
                        if bq == head or (bq in P.classes and head in P.classes and P.is_subclass(bq, head)):
                            hit = True
                if hit:
                    g.readers.setdefault(f.qualname, []).append(n.lineno)
    return out


def _attr_owner(P: Program, c: ClassInfo, attr: str) -> str:
    got = P.lookup_attr(c, attr)
    return got[0].qualname if got else c.qualname


def _is_local(f: FuncInfo, name: str) -> bool:
    if name in f.params:
        return True
    globs = {x for n in walk_no_nested(f.node) if isinstance(n, ast.Global) for x in n.names}
    if name in globs:
        return False
    for n in walk_no_nested(f.node):
        if isinstance(n, ast.Name) and isinstance(n.ctx, ast.Store) and n.id == name:
            return True
    return False


def _mutable_init(node: ast.AST) -> bool:
    if isinstance(node, (ast.Dict, ast.List, ast.Set, ast.ListComp, ast.DictComp, ast.SetComp)):
        return True
    if isinstance(node, ast.Call):
        d = dotted(node.func) or ""
        return d.split(".")[-1] in ("dict", "list", "set", "defaultdict", "OrderedDict", "WeakSet", "WeakValueDictionary", "deque", "Counter")
    return False
