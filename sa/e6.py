"""E6 - finite decision-table evaluation (finite-domain abstract interpretation).

A handful of pure repo functions range over a small finite domain (scalar type classes, small
integers).  Their bodies are lowered here to guard/return decision structures in a *restricted*
language and evaluated by the checker's own semantics over the whole domain.  No vtlengine object
exists in the checker's process: a type is a ClassVal naming a ClassInfo of the parsed program,
`issubclass` is answered from the extracted class hierarchy, tables are dict/set literals read from
the AST.  Any construct outside the language raises Unmodelled (→ ANALYSIS-ERROR, exit 2).
"""
from __future__ import annotations

import ast
from dataclasses import dataclass, field
from typing import Any, Callable, Dict, List, Optional, Tuple

from sa.core import walk_no_nested, AnalysisError, ClassInfo, FuncInfo, ModuleInfo, Program, dotted, src


class Unmodelled(AnalysisError):
    pass


@dataclass(frozen=True)
class ClassVal:
    qualname: str

    @property
    def short(self) -> str:
        return self.qualname.rsplit(".", 1)[-1]

    def __repr__(self) -> str:
        return self.short


@dataclass
class ExcVal:
    kind: str
    code: Optional[str]
    kwargs: Dict[str, Any]
    line: int = 0


class Raised(Exception):
    def __init__(self, exc: Any) -> None:
        self.exc = exc


import calendar as _calendar_mod
import collections as _collections_mod
import datetime as _datetime_mod
import re as _re_mod

# side-effect-free standard-library modules the evaluated code may call on concrete values: they are the language's primitives here,
# exactly like int() or str.split(); nothing of the repository runs through them
import copy as _copy_mod
import math as _math_mod
PURE_STDLIB = {"re": _re_mod, "datetime": _datetime_mod, "calendar": _calendar_mod, "collections": _collections_mod, "math": _math_mod, "copy": _copy_mod}


def _pure_stdlib(dotted: str) -> Any:
    head, _, rest = dotted.partition(".")
    if head not in PURE_STDLIB:
        return None
    obj = PURE_STDLIB[head]
    for part in [x for x in rest.split(".") if x]:
        if not hasattr(obj, part):
            return None
        obj = getattr(obj, part)
    return obj
BUILTIN_EXCEPTIONS = {"Exception", "ValueError", "TypeError", "KeyError", "NotImplementedError", "RuntimeError", "AssertionError", "IndexError", "SyntaxError", "AttributeError"}


class _Continue(Exception):
    pass


class _Break(Exception):
    pass


class _Return(Exception):
    def __init__(self, value: Any) -> None:
        self.value = value


@dataclass
class ExternalObj:
    """Opaque object (e.g. a Component) with attribute values supplied by the check."""
    attrs: Dict[str, Any]


class Interp:
    def __init__(self, P: Program, externals: Optional[Dict[str, Callable[..., Any]]] = None,
                 max_steps: int = 20000) -> None:
        self.P = P
        self.externals = externals or {}
        self.steps = 0
        self.max_steps = max_steps
        self.globals_written: Dict[str, Any] = {}  # qualified module global -> value (for `global` stmts)
        self.trace: List[str] = []  # lines of guards taken (for reports)
        self.class_attrs: Dict[Tuple[str, str], Any] = {}

    # ---- entry -------------------------------------------------------------------------
    def call(self, f: FuncInfo, args: Dict[str, Any], bound_cls: Optional[ClassVal] = None,
             closure: Optional[Dict[str, Any]] = None) -> Any:
        """args may contain "*" -> list of extra positional values for a *vararg parameter"""
        env: Dict[str, Any] = dict(closure or {})
        args = dict(args)
        star = args.pop("*", None)
        a = f.node.args  # type: ignore[attr-defined]
        params = [x.arg for x in a.posonlyargs + a.args + a.kwonlyargs]
        defaults = list(a.defaults)
        pos = a.posonlyargs + a.args
        dmap: Dict[str, ast.AST] = {}
        for p, d in zip(pos[len(pos) - len(defaults):], defaults):
            dmap[p.arg] = d
        for p, d in zip(a.kwonlyargs, a.kw_defaults):
            if d is not None:
                dmap[p.arg] = d
        for p in params:
            if p in args:
                env[p] = args[p]
            elif p in ("cls", "self") and bound_cls is not None and p == params[0]:
                env[p] = bound_cls
            elif p in dmap:
                env[p] = self.eval(dmap[p], {}, f)
            else:
                raise Unmodelled(f"{f.qualname}: no value for parameter {p}")
        if a.vararg is not None:
            env[a.vararg.arg] = tuple(star or ())
        elif star:
            raise Unmodelled(f"{f.qualname}: positional varargs given but function has no *args")
        extra = set(args) - set(params)
        if extra:
            raise Unmodelled(f"{f.qualname}: unknown arguments {sorted(extra)}")
        globs = set()
        for st in ast.walk(f.node):
            if isinstance(st, ast.Global):
                globs.update(st.names)
        env["__globals__"] = globs
        is_gen = any(isinstance(n_, (ast.Yield, ast.YieldFrom)) for n_ in walk_no_nested(f.node))
        if is_gen:
            env["__yields__"] = []  # a generator function is modelled as the finite list of the values it yields
        try:
            self.exec_block(f.node.body, env, f)  # type: ignore[attr-defined]
        except _Return as r:
            return env["__yields__"] if is_gen else r.value
        return env["__yields__"] if is_gen else None

    # ---- statements -----------------------------------------------------------------------
    def exec_block(self, body: List[ast.stmt], env: Dict[str, Any], f: FuncInfo) -> None:
        for st in body:
            self.exec(st, env, f)

    def exec(self, st: ast.stmt, env: Dict[str, Any], f: FuncInfo) -> None:
        self.steps += 1
        if self.steps > self.max_steps:
            raise Unmodelled(f"{f.qualname}: step budget exceeded")
        if isinstance(st, ast.Expr):
            if isinstance(st.value, ast.Constant):
                return
            if isinstance(st.value, ast.Yield) and "__yields__" in env:
                env["__yields__"].append(self.eval(st.value.value, env, f) if st.value.value is not None else None)
                return
            if isinstance(st.value, ast.YieldFrom) and "__yields__" in env:
                env["__yields__"].extend(list(self.eval(st.value.value, env, f)))
                return
            self.eval(st.value, env, f)
        elif isinstance(st, (ast.Pass, ast.Global)):
            return
        elif isinstance(st, ast.Delete):
            for t in st.targets:
                if isinstance(t, ast.Name):
                    env.pop(t.id, None)
                elif isinstance(t, ast.Subscript) and isinstance(self.eval(t.value, env, f), (dict, list)):
                    cont_ = self.eval(t.value, env, f)
                    k_ = self.eval(t.slice, env, f)
                    if isinstance(cont_, dict) and k_ not in cont_:
                        raise Raised(ExcVal("KeyError", None, {"expr": src(t)}, st.lineno))
                    del cont_[k_]
                else:
                    raise Unmodelled(f"{f.qualname}:{st.lineno} del of a non-name target")
        elif isinstance(st, ast.Assign):
            v = self.eval(st.value, env, f)
            for t in st.targets:
                self.assign(t, v, env, f)
        elif isinstance(st, ast.AnnAssign):
            if st.value is not None:
                self.assign(st.target, self.eval(st.value, env, f), env, f)
        elif isinstance(st, ast.AugAssign):
            cur = self.eval(st.target, env, f)
            v = self.binop(st.op, cur, self.eval(st.value, env, f), st)
            self.assign(st.target, v, env, f)
        elif isinstance(st, ast.If):
            c = self.truth(self.eval(st.test, env, f))
            self.trace.append(f"L{st.lineno}:{'T' if c else 'F'}")
            self.exec_block(st.body if c else st.orelse, env, f)
        elif isinstance(st, ast.Import) and all(a.name.split(".")[0] in PURE_STDLIB for a in st.names):
            for a in st.names:
                env[(a.asname or a.name).split(".")[0]] = PURE_STDLIB[a.name.split(".")[0]]
        elif isinstance(st, ast.Return):
            raise _Return(self.eval(st.value, env, f) if st.value is not None else None)
        elif isinstance(st, ast.Raise):
            exc = self.eval(st.exc, env, f) if st.exc is not None else None
            if isinstance(exc, ExcVal):
                exc.line = st.lineno
            raise Raised(exc)
        elif isinstance(st, ast.For):
            it = self.eval(st.iter, env, f)
            if isinstance(it, dict):
                it = list(it.keys())
            if isinstance(it, str) or type(it).__name__ in ("dict_keys", "dict_values", "dict_items", "range", "enumerate", "zip", "reversed", "list_iterator"):
                it = list(it)
            if not isinstance(it, (list, tuple, set, frozenset)):
                raise Unmodelled(f"{f.qualname}:{st.lineno} for over non-finite iterable")
            broke = False
            for x in list(it):
                self.assign(st.target, x, env, f)
                try:
                    self.exec_block(st.body, env, f)
                except _Continue:
                    continue
                except _Break:
                    broke = True
                    break
            if not broke and st.orelse:
                self.exec_block(st.orelse, env, f)
        elif isinstance(st, ast.FunctionDef):
            g = self.P.functions.get(f"{f.qualname}.<locals>.{st.name}")
            if g is None:
                raise Unmodelled(f"{f.qualname}:{st.lineno} nested function {st.name} not in the program model")

            def _local(*a_: Any, _g: FuncInfo = g, **k_: Any) -> Any:
                names_ = [x.arg for x in _g.node.args.posonlyargs + _g.node.args.args]  # type: ignore[attr-defined]
                if len(a_) > len(names_):
                    raise Unmodelled(f"too many positional args for {_g.qualname}")
                amap_ = dict(zip(names_, a_))
                amap_.update(k_)
                return self.call(_g, amap_, closure={k: v for k, v in env.items() if k != "__globals__"})
            env[st.name] = _local
        elif isinstance(st, ast.While):
            while self.truth(self.eval(st.test, env, f)):
                self.steps += 1
                if self.steps > self.max_steps:
                    raise Unmodelled(f"{f.qualname}:{st.lineno} while loop exceeds the step budget")
                try:
                    self.exec_block(st.body, env, f)
                except _Continue:
                    continue
                except _Break:
                    break
        elif isinstance(st, ast.Continue):
            raise _Continue()
        elif isinstance(st, ast.Break):
            raise _Break()
        elif isinstance(st, ast.With):
            for item in st.items:
                val = self.eval(item.context_expr, env, f)
                if item.optional_vars is not None:
                    self.assign(item.optional_vars, val, env, f)
            self.exec_block(st.body, env, f)
        elif isinstance(st, ast.Try):
            # only try/except used as control flow with raise of modelled exceptions
            try:
                self.exec_block(st.body, env, f)
            except Raised as r:
                for h in st.handlers:
                    if h.type is None or self._exc_matches(r.exc, h.type, f):
                        if h.name:
                            env[h.name] = r.exc
                        self.exec_block(h.body, env, f)
                        break
                else:
                    raise
            finally:
                if st.finalbody:
                    self.exec_block(st.finalbody, env, f)
        else:
            raise Unmodelled(f"{f.qualname}:{st.lineno} statement {type(st).__name__} not modelled: {src(st)[:60]}")

    def _exc_matches(self, exc: Any, typ: ast.AST, f: FuncInfo) -> bool:
        names = [typ] if not isinstance(typ, ast.Tuple) else list(typ.elts)
        for n in names:
            d = src(n).split(".")[-1]
            if d in ("Exception", "BaseException"):
                return True
            if isinstance(exc, ExcVal) and exc.kind == d:
                return True
            if isinstance(exc, ExcVal) and d == "ArithmeticError" and exc.kind in ("OverflowError", "ZeroDivisionError", "FloatingPointError"):
                return True
        return False

    def assign(self, t: ast.AST, v: Any, env: Dict[str, Any], f: FuncInfo) -> None:
        if isinstance(t, ast.Name):
            if t.id in env.get("__globals__", ()):
                self.globals_written[f"{f.module.name}.{t.id}"] = v
            else:
                env[t.id] = v
        elif isinstance(t, (ast.Tuple, ast.List)):
            vs = list(v)
            if len(vs) != len(t.elts):
                raise Unmodelled("tuple unpack arity")
            for tt, vv in zip(t.elts, vs):
                self.assign(tt, vv, env, f)
        elif isinstance(t, ast.Subscript):
            obj = self.eval(t.value, env, f)
            obj[self.eval(t.slice, env, f)] = v
        elif isinstance(t, ast.Attribute):
            obj = self.eval(t.value, env, f)
            if isinstance(obj, ExternalObj):
                obj.attrs[t.attr] = v
            elif isinstance(obj, ClassVal):
                self.class_attrs[(obj.qualname, t.attr)] = v  # class attribute rebound at run time (e.g. cls.reference_dataset)
            elif isinstance(obj, (ModuleInfo, FuncInfo, dict, list, tuple, set, str, int, float, bool, type(None))):
                raise Unmodelled(f"{f.qualname}: attribute store on {type(obj).__name__} ({src(t)}) not modelled")
            else:
                setattr(obj, t.attr, v)  # mock object handed in by the check
        else:
            raise Unmodelled(f"{f.qualname}: assignment target {src(t)} not modelled")

    # ---- expressions ------------------------------------------------------------------------
    def truth(self, v: Any) -> bool:
        if isinstance(v, ClassVal):
            return True
        if isinstance(v, (ExternalObj, ExcVal)):
            return True
        return bool(v)

    def lookup_name(self, name: str, env: Dict[str, Any], f: FuncInfo) -> Any:
        if name in env.get("__globals__", ()):
            q = f"{f.module.name}.{name}"
            if q in self.globals_written:
                return self.globals_written[q]
        elif name in env:
            return env[name]
        if name in ("True", "False", "None"):
            return {"True": True, "False": False, "None": None}[name]
        if name in ("set", "frozenset", "dict", "list", "tuple", "str") and name not in f.module.assigns and name not in f.module.imports:
            return {"set": set, "frozenset": frozenset, "dict": dict, "list": list, "tuple": tuple, "str": str}[name]
        return self.module_name(f.module, name, f)

    def module_name(self, m: ModuleInfo, name: str, f: FuncInfo) -> Any:
        q = f"{m.name}.{name}"
        if q in self.globals_written:
            return self.globals_written[q]
        if name in m.classes:
            return ClassVal(m.classes[name].qualname)
        if name in m.functions:
            return m.functions[name]
        if name in m.assigns:
            # evaluate the literal in module context (fresh each time: tables are never shared)
            fake = FuncInfo(f"{m.name}.<module>", m, ast.parse("def _m(): pass").body[0])
            return self.eval(m.assigns[name], {}, fake)
        if name in m.imports:
            std = _pure_stdlib(m.imports[name])
            if std is not None:
                return std  # side-effect-free standard-library module / class (re, datetime, calendar)
            tgt = self.P.canonical(m.imports[name])
            return self.qualified(tgt, f)
        if name in self.externals:
            return self.externals[name]
        raise Unmodelled(f"{f.qualname}: name {name} not resolvable")

    def qualified(self, q: str, f: FuncInfo) -> Any:
        if q in self.globals_written:
            return self.globals_written[q]
        if q in self.P.classes:
            return ClassVal(q)
        if q in self.P.functions:
            return self.P.functions[q]
        if q in self.P.modules:
            return self.P.modules[q]
        if "." in q:
            head, last = q.rsplit(".", 1)
            if head in self.P.modules:
                return self.module_name(self.P.modules[head], last, f)
            if head in self.P.classes:
                got = self.P.lookup_attr(self.P.classes[head], last)
                if got:
                    fake = FuncInfo(f"{got[0].qualname}.<class>", got[0].module, ast.parse("def _m(): pass").body[0])
                    return self.eval(got[1], {}, fake)
        if q in self.externals:
            return self.externals[q]
        raise Unmodelled(f"{f.qualname}: {q} not resolvable")

    def eval(self, e: ast.AST, env: Dict[str, Any], f: FuncInfo) -> Any:  # noqa: C901
        self.steps += 1
        if self.steps > self.max_steps:
            raise Unmodelled(f"{f.qualname}: step budget exceeded")
        if isinstance(e, ast.Constant):
            return e.value
        if isinstance(e, ast.Name):
            return self.lookup_name(e.id, env, f)
        if isinstance(e, ast.Set):
            return set(self.eval(x, env, f) for x in e.elts)
        if isinstance(e, (ast.List, ast.Tuple)):
            vals = [self.eval(x, env, f) for x in e.elts]
            return vals if isinstance(e, ast.List) else tuple(vals)
        if isinstance(e, ast.Dict):
            out = {}
            for k, v in zip(e.keys, e.values):
                if k is None:
                    out.update(self.eval(v, env, f))
                else:
                    out[self.eval(k, env, f)] = self.eval(v, env, f)
            return out
        if isinstance(e, ast.BoolOp):
            if isinstance(e.op, ast.And):
                v: Any = True
                for x in e.values:
                    v = self.eval(x, env, f)
                    if not self.truth(v):
                        return v
                return v
            v = False
            for x in e.values:
                v = self.eval(x, env, f)
                if self.truth(v):
                    return v
            return v
        if isinstance(e, ast.UnaryOp):
            v = self.eval(e.operand, env, f)
            if isinstance(e.op, ast.Not):
                return not self.truth(v)
            if isinstance(e.op, ast.USub):
                return -v
            raise Unmodelled(f"unary {src(e)}")
        if isinstance(e, ast.IfExp):
            return self.eval(e.body if self.truth(self.eval(e.test, env, f)) else e.orelse, env, f)
        if isinstance(e, ast.Compare):
            left = self.eval(e.left, env, f)
            for op, c in zip(e.ops, e.comparators):
                right = self.eval(c, env, f)
                if not self.compare(op, left, right, e):
                    return False
                left = right
            return True
        if isinstance(e, ast.BinOp):
            return self.binop(e.op, self.eval(e.left, env, f), self.eval(e.right, env, f), e)
        if isinstance(e, ast.Slice):
            return slice(*(self.eval(x, env, f) if x is not None else None for x in (e.lower, e.upper, e.step)))
        if isinstance(e, ast.Subscript):
            obj = self.eval(e.value, env, f)
            key = self.eval(e.slice, env, f)
            try:
                return obj[key]
            except (KeyError, IndexError, TypeError):
                raise Raised(ExcVal("KeyError", None, {"key": repr(key), "expr": src(e)}, getattr(e, "lineno", 0)))
        if isinstance(e, ast.Attribute):
            return self.attribute(e, env, f)
        if isinstance(e, ast.Call):
            return self.call_expr(e, env, f)
        if isinstance(e, ast.JoinedStr):
            parts = []
            for v in e.values:
                if isinstance(v, ast.Constant):
                    parts.append(str(v.value))
                else:
                    val = self.eval(v.value, env, f)  # type: ignore[attr-defined]
                    spec = ""
                    if v.format_spec is not None:  # type: ignore[attr-defined]
                        spec = self.eval(v.format_spec, env, f)  # type: ignore[attr-defined]
                    if v.conversion == ord("r"):  # type: ignore[attr-defined]
                        val = repr(val)
                    parts.append(format(val, spec) if spec else str(val))
            return "".join(parts)
        if isinstance(e, (ast.ListComp, ast.SetComp, ast.GeneratorExp)):
            return self.comprehension(e, env, f)
        if isinstance(e, ast.DictComp):
            out2: Dict[Any, Any] = {}

            def rec(i: int, env_: Dict[str, Any]) -> None:
                if i == len(e.generators):
                    out2[self.eval(e.key, env_, f)] = self.eval(e.value, env_, f)
                    return
                g = e.generators[i]
                it = self.eval(g.iter, env_, f)
                if isinstance(it, dict):
                    it = list(it.keys())
                for x in list(it):
                    e2 = dict(env_)
                    self.assign(g.target, x, e2, f)
                    if all(self.truth(self.eval(c, e2, f)) for c in g.ifs):
                        rec(i + 1, e2)
            rec(0, env)
            return out2
        if isinstance(e, ast.Lambda):
            params = [a.arg for a in e.args.args]

            def lam(*vals: Any) -> Any:
                e2 = dict(env)
                e2.update(zip(params, vals))
                return self.eval(e.body, e2, f)
            return lam
        raise Unmodelled(f"{f.qualname}:{getattr(e, 'lineno', 0)} expression {type(e).__name__} not modelled: {src(e)[:60]}")

    def comprehension(self, e: Any, env: Dict[str, Any], f: FuncInfo) -> Any:
        out: List[Any] = []

        def rec(k: int, env_k: Dict[str, Any]) -> None:
            if k == len(e.generators):
                out.append(self.eval(e.elt, env_k, f))
                return
            g = e.generators[k]
            it = self.eval(g.iter, env_k, f)
            if isinstance(it, dict):
                it = list(it.keys())
            for x in list(it):
                env2 = dict(env_k)
                self.assign(g.target, x, env2, f)
                if all(self.truth(self.eval(c, env2, f)) for c in g.ifs):
                    rec(k + 1, env2)
        rec(0, env)
        return set(out) if isinstance(e, ast.SetComp) else out

    def compare(self, op: ast.cmpop, a: Any, b: Any, e: ast.AST) -> bool:
        if isinstance(op, (ast.Is, ast.Eq)):
            return a == b if not (a is None or b is None) else a is b
        if isinstance(op, (ast.IsNot, ast.NotEq)):
            return not self.compare(ast.Eq(), a, b, e)
        if isinstance(op, ast.In):
            return a in b
        if isinstance(op, ast.NotIn):
            return a not in b
        try:
            if isinstance(op, ast.Lt):
                return a < b
            if isinstance(op, ast.LtE):
                return a <= b
            if isinstance(op, ast.Gt):
                return a > b
            if isinstance(op, ast.GtE):
                return a >= b
        except TypeError:
            raise Unmodelled(f"comparison of {a!r} and {b!r} in {src(e)}")
        raise Unmodelled(f"comparison {src(e)}")

    def binop(self, op: ast.operator, a: Any, b: Any, e: ast.AST) -> Any:
        try:
            if isinstance(op, ast.Add):
                return a + b
            if isinstance(op, ast.Sub):
                return a - b
            if isinstance(op, ast.BitOr):
                return a | b
            if isinstance(op, ast.BitAnd):
                return a & b
            if isinstance(op, ast.Mult):
                return a * b
            if isinstance(op, ast.Div):
                return a / b
            if isinstance(op, ast.FloorDiv):
                return a // b
            if isinstance(op, ast.Mod):
                return a % b
            if isinstance(op, ast.Pow) and isinstance(a, (int, float)) and isinstance(b, (int, float)) and abs(b) < 64:
                return a ** b
        except ZeroDivisionError:
            raise Raised(ExcVal("ZeroDivisionError", None, {"expr": src(e)}, getattr(e, "lineno", 0)))
        except TypeError:
            pass
        raise Unmodelled(f"binary operation {src(e)}")

    def attribute(self, e: ast.Attribute, env: Dict[str, Any], f: FuncInfo) -> Any:
        # module-qualified constant / class
        q = self.P.resolve_expr(f.module, e)
        if q and not (isinstance(e.value, ast.Name) and e.value.id in env):
            try:
                return self.qualified(q, f)
            except Unmodelled:
                pass
        base = self.eval(e.value, env, f)
        if isinstance(base, ExternalObj):
            if e.attr in base.attrs:
                return base.attrs[e.attr]
            raise Unmodelled(f"external object has no modelled attribute {e.attr}")
        if isinstance(base, ClassVal):
            if e.attr == "__name__":
                return base.short
            ci0 = self.P.classes.get(base.qualname)
            for c0 in ([ci0] + [x for x in self.P.mro(ci0)[1:]] if ci0 is not None else []):
                if (c0.qualname, e.attr) in self.class_attrs:
                    return self.class_attrs[(c0.qualname, e.attr)]
            ci = self.P.classes.get(base.qualname)
            if ci is not None:
                got = self.P.lookup_attr(ci, e.attr)
                if got:
                    fake = FuncInfo(f"{got[0].qualname}.<class>", got[0].module, ast.parse("def _m(): pass").body[0])
                    return self.eval(got[1], {}, fake)
                mm = self.P.lookup_method(ci, e.attr)
                if mm:
                    return ("boundmethod", mm, base)
        if base in (set, frozenset, dict, list, tuple, str) and e.attr in ("intersection", "union", "difference", "fromkeys", "join"):
            return getattr(base, e.attr)
        if (type(base) not in (dict, list, tuple, set, str, int, float, bool, type(None)) and
                not isinstance(base, (ClassVal, ExternalObj, ExcVal, ModuleInfo, FuncInfo))) and hasattr(base, e.attr):
            return getattr(base, e.attr)  # object handed in by the check through `externals`
        if getattr(base, "_e6_complete", False) and not isinstance(base, (ClassVal, ExternalObj, ExcVal, ModuleInfo, FuncInfo)):
            # a model object whose attribute set the check declares complete: a missing attribute is the program's AttributeError
            raise Raised(ExcVal("AttributeError", None, {"message": f"{getattr(base, '_cls', type(base).__name__)!r} object has no attribute {e.attr!r}"}, getattr(e, "lineno", 0)))
        if isinstance(base, ExcVal) and e.attr == "args":
            return (base.kwargs.get("message", ""), base.code)
        if isinstance(base, ModuleInfo):
            return self.module_name(base, e.attr, f)
        raise Unmodelled(f"{f.qualname}:{e.lineno} attribute {src(e)} not modelled")

    def call_expr(self, e: ast.Call, env: Dict[str, Any], f: FuncInfo) -> Any:  # noqa: C901
        fn = e.func
        if (dotted(fn) in ("cast", "typing.cast")) and len(e.args) == 2 and "cast" not in env and f.module.imports.get("cast", "typing.cast").startswith("typing"):
            return self.eval(e.args[1], env, f)  # typing.cast(T, v) is v; T is a type expression, not evaluated
        if isinstance(fn, ast.Name) and fn.id == "isinstance" and fn.id not in env and len(e.args) == 2:
            args = [self.eval(e.args[0], env, f), None]
        else:
            args = []
            for a in e.args:
                if isinstance(a, ast.Starred):
                    args.extend(list(self.eval(a.value, env, f)))
                else:
                    args.append(self.eval(a, env, f))
        kwargs = {k.arg: self.eval(k.value, env, f) for k in e.keywords if k.arg is not None}
        for k in e.keywords:
            if k.arg is None:
                extra_kw = self.eval(k.value, env, f)
                if not isinstance(extra_kw, dict) or not all(isinstance(x, str) for x in extra_kw):
                    raise Unmodelled(f"**kwargs call {src(e)[:50]}: the splatted value is not a dict with string keys")
                kwargs.update(extra_kw)
        # builtins
        if isinstance(fn, ast.Name) and fn.id not in env:
            name = fn.id
            if name == "bool":
                return self.truth(args[0]) if args else False
            if name == "len":
                return len(args[0])
            if name == "int":
                try:
                    return int(args[0])
                except (ValueError, TypeError):
                    raise Raised(ExcVal("ValueError", None, {"value": args[0]}, e.lineno))
            if name == "float":
                try:
                    return float(args[0])
                except ValueError:
                    raise Raised(ExcVal("ValueError", None, {"value": args[0]}, e.lineno))
                except TypeError:
                    raise Raised(ExcVal("TypeError", None, {"value": args[0]}, e.lineno))
            if name == "str":
                return str(args[0])
            if name == "sorted" and kwargs:
                return sorted(*args, **kwargs)
            if name == "zip":
                return list(zip(*args))
            if name == "enumerate":
                return list(enumerate(*args, **kwargs))
            if name in ("set", "list", "tuple", "sorted", "dict"):
                return {"set": set, "list": list, "tuple": tuple, "sorted": sorted, "dict": dict}[name](*args)
            if name == "issubclass":
                a, b = args
                bs = b if isinstance(b, tuple) else (b,)
                return any(self.P.is_subclass(a.qualname, x.qualname) for x in bs)
            if name == "isinstance":
                tnode = e.args[1]
                if isinstance(tnode, ast.Name) and tnode.id in env and isinstance(env[tnode.id], tuple) and all(isinstance(x, ClassVal) for x in env[tnode.id]) \
                        and "isinstance" in self.externals:
                    return self.externals["isinstance"](args[0], [x.qualname for x in env[tnode.id]])
                tnames = [tnode] if not isinstance(tnode, ast.Tuple) else list(tnode.elts)
                py = {"str": str, "int": int, "float": float, "bool": bool, "list": list, "dict": dict, "tuple": tuple, "set": set}
                if all(isinstance(t, ast.Name) and t.id in py for t in tnames):
                    return isinstance(args[0], tuple(py[t.id] for t in tnames))  # type: ignore[union-attr]
                if "isinstance" in self.externals:
                    return self.externals["isinstance"](args[0], [src(t) for t in tnames])
                raise Unmodelled(f"isinstance in {src(e)[:50]}")
            if name in ("any", "all"):
                return {"any": any, "all": all}[name](self.truth(x) for x in args[0])
            if name == "next" and name not in self.externals:
                it_ = iter(args[0])
                for x_ in it_:
                    return x_
                if len(args) > 1:
                    return args[1]
                raise Raised(ExcVal("StopIteration", None, {"expr": src(e)}, e.lineno))
            if name == "iter" and len(args) == 1:
                return list(args[0])
            if name in ("abs", "round") and name not in self.externals:
                try:
                    return {"abs": abs, "round": round}[name](*args)
                except (ArithmeticError, ValueError) as ex:
                    raise Raised(ExcVal(type(ex).__name__, None, {"message": str(ex)}, getattr(e, "lineno", 0)))
            if name == "reversed":
                return list(reversed(list(args[0])))
            if name == "sum":
                return sum(*args)
            if name == "range":
                return list(range(*args))
            if name in ("max", "min") and name not in self.externals:
                fnk = kwargs.get("key")
                seq = list(args[0]) if len(args) == 1 else list(args)
                if not seq:
                    raise Raised(ExcVal("ValueError", None, {"expr": src(e)}, e.lineno))
                keyf = (lambda x: self._apply(fnk, [x])) if fnk is not None else (lambda x: x)
                return (max if name == "max" else min)(seq, key=keyf)
            if name == "reduce" and name not in self.externals:
                fn_, seq = args[0], list(args[1])
                acc = args[2] if len(args) > 2 else seq.pop(0)
                for x in seq:
                    acc = self._apply(fn_, [acc, x])
                return acc
            if name in self.externals:
                return self.externals[name](*args, **kwargs)
            if name in BUILTIN_EXCEPTIONS and name not in f.module.assigns and name not in f.module.imports and name not in f.module.classes:
                return ExcVal(name, None, {"message": args[0] if args else ""})
        if isinstance(fn, ast.Attribute):
            d = src(fn)
            if d in self.externals:
                return self.externals[d](*args, **kwargs)
            # super().method(...): next definition after the class that defines the running function
            if isinstance(fn.value, ast.Call) and isinstance(fn.value.func, ast.Name) and fn.value.func.id == "super" and not fn.value.args:
                owner = f
                while owner.cls is None and owner.parent is not None:
                    owner = owner.parent
                if owner.cls is None:
                    raise Unmodelled(f"{f.qualname}: super() outside a class")
                for c_ in self.P.mro(owner.cls)[1:]:
                    if fn.attr in c_.methods:
                        g_ = c_.methods[fn.attr]
                        if "cls" in env and isinstance(env["cls"], ClassVal):
                            return self._call_func(g_, args, kwargs, bound=env["cls"])
                        if "self" in env:
                            return self._call_method(g_, env["self"], args, kwargs)
                        raise Unmodelled(f"{f.qualname}: super() without cls/self")
                raise Unmodelled(f"{f.qualname}: super().{fn.attr} not found in the in-repo MRO")
            # set / dict methods
            try:
                base = self.eval(fn.value, env, f)
            except Unmodelled:
                base = None
                raise
            if isinstance(base, (set, frozenset)):
                if fn.attr == "intersection":
                    return set(base).intersection(*args)
                if fn.attr == "union":
                    return set(base).union(*args)
                if fn.attr == "difference":
                    return set(base).difference(*args)
                if fn.attr == "discard":
                    base.discard(args[0])  # type: ignore[union-attr]
                    return None
                if fn.attr == "remove":
                    if args[0] not in base:
                        raise Raised(ExcVal("KeyError", None, {"expr": src(e)}, e.lineno))
                    base.remove(args[0])  # type: ignore[union-attr]
                    return None
                if fn.attr == "clear":
                    base.clear()  # type: ignore[union-attr]
                    return None
                if fn.attr == "add":
                    base.add(args[0])  # type: ignore[union-attr]
                    return None
                if fn.attr == "update":
                    base.update(*args)  # type: ignore[union-attr]
                    return None
                if fn.attr == "pop":
                    if not base:
                        raise Raised(ExcVal("KeyError", None, {"expr": src(e)}, e.lineno))
                    return base.pop()  # type: ignore[union-attr]
                if fn.attr == "copy":
                    return set(base)
                if fn.attr == "issubset":
                    return set(base).issubset(args[0])
            if isinstance(base, str) and fn.attr in ("lower", "upper", "strip", "lstrip", "rstrip", "replace", "startswith",
                                                     "endswith", "split", "format", "join", "title", "capitalize", "casefold", "swapcase", "zfill", "rsplit",
                                                     "partition", "rpartition", "isdigit", "isalpha", "isupper", "islower", "find", "count", "ljust", "rjust", "splitlines",
                                                     "isidentifier", "isalnum", "isnumeric", "isdecimal", "isspace", "isascii", "rfind", "index", "removeprefix", "removesuffix", "encode", "center"):
                return getattr(base, fn.attr)(*args, **kwargs)
            if isinstance(base, list) and fn.attr in ("append", "extend", "insert", "pop", "index", "count", "copy", "sort", "reverse", "remove", "clear"):
                return getattr(base, fn.attr)(*args, **kwargs)
            if isinstance(base, tuple) and fn.attr in ("index", "count"):
                return getattr(base, fn.attr)(*args)
            if isinstance(base, dict):
                if fn.attr == "get":
                    return base.get(args[0], args[1] if len(args) > 1 else None)
                if fn.attr in ("keys", "values", "items"):
                    return list(getattr(base, fn.attr)())
                if fn.attr == "pop":
                    if args[0] not in base and len(args) < 2:
                        raise Raised(ExcVal("KeyError", None, {"expr": src(e)}, e.lineno))
                    return base.pop(*args)
                if fn.attr == "setdefault":
                    return base.setdefault(*args)
                if fn.attr == "update":
                    base.update(*args, **kwargs)
                    return None
                if fn.attr == "copy":
                    return dict(base)
            if isinstance(base, ClassVal):
                ci = self.P.classes.get(base.qualname)
                mm = self.P.lookup_method(ci, fn.attr) if ci else None
                if mm is not None:
                    return self._call_func(mm, args, kwargs, bound=base)
        if isinstance(fn, ast.Attribute):
            try:
                recv = self.eval(fn.value, env, f)
            except Unmodelled:
                recv = None
            qcls = getattr(recv, "_e6_class", None) if not isinstance(recv, (ClassVal, ExternalObj, dict, list, tuple, set, str, int, float, bool, type(None))) else None
            if qcls is not None and not hasattr(type(recv), fn.attr):
                ci = self.P.classes.get(qcls)
                mm = self.P.lookup_method(ci, fn.attr) if ci else None
                if mm is not None:
                    if "staticmethod" in mm.decorators:
                        return self._call_func(mm, args, kwargs, bound=None)
                    return self._call_method(mm, recv, args, kwargs)
        callee = self.eval(fn, env, f)
        if isinstance(callee, tuple) and callee and callee[0] == "boundmethod":
            return self._call_func(callee[1], args, kwargs, bound=callee[2])
        if isinstance(callee, FuncInfo):
            return self._call_func(callee, args, kwargs, bound=None)
        if isinstance(callee, ClassVal):
            ci = self.P.classes.get(callee.qualname)
            if ci is not None and (self.P.is_subclass(callee.qualname, "vtlengine.Exceptions.VTLEngineException")
                                   or "Exception" in self.P.all_bases(ci) or "Error" in callee.short):
                code = kwargs.get("code", args[0] if args else None)
                return ExcVal(callee.short, code, kwargs)
            if ci is not None and any(str(b_).split(".")[-1] in ("Enum", "IntEnum", "StrEnum") for b_ in self.P.all_bases(ci)) and len(args) == 1 and not kwargs:
                # Enum lookup by value: members are represented by their values
                fake = FuncInfo(f"{ci.qualname}.<class>", ci.module, ast.parse("def _m(): pass").body[0])
                members = []
                for st_ in ci.node.body:
                    if isinstance(st_, ast.Assign) and len(st_.targets) == 1 and isinstance(st_.targets[0], ast.Name):
                        try:
                            members.append(self.eval(st_.value, {}, fake))
                        except Unmodelled:
                            pass
                if any(type(m_) is type(args[0]) and m_ == args[0] for m_ in members):
                    return args[0]
                raise Raised(ExcVal("ValueError", None, {"message": f"{args[0]!r} is not a valid {callee.short}"}, getattr(e, "lineno", 0)))
            raise Unmodelled(f"construction of {callee.short} not modelled")
        if callable(callee):
            if getattr(callee, "__module__", None) in ("math", "calendar", "datetime") or getattr(getattr(callee, "__self__", None), "__name__", None) in ("math", "calendar"):
                try:
                    return callee(*args, **kwargs)
                except (ArithmeticError, ValueError) as ex:  # the standard library's own exception is the program's exception
                    raise Raised(ExcVal(type(ex).__name__, None, {"message": str(ex)}, getattr(e, "lineno", 0)))
            return callee(*args, **kwargs)
        raise Unmodelled(f"{f.qualname}:{e.lineno} call {src(e)[:60]} not modelled")

    def _call_method(self, g: FuncInfo, recv: Any, args: List[Any], kwargs: Dict[str, Any]) -> Any:
        a = g.node.args  # type: ignore[attr-defined]
        names = [x.arg for x in a.posonlyargs + a.args]
        amap: Dict[str, Any] = {names[0]: recv}
        for n_, v_ in zip(names[1:], args):
            amap[n_] = v_
        if len(args) > len(names) - 1:
            if a.vararg is None:
                raise Unmodelled(f"too many positional args for {g.qualname}")
            amap["*"] = list(args[len(names) - 1:])
        amap.update(kwargs)
        return self.call(g, amap)

    def _apply(self, fn: Any, args: List[Any]) -> Any:
        if isinstance(fn, FuncInfo):
            return self._call_func(fn, args, {}, bound=None)
        if isinstance(fn, tuple) and fn and fn[0] == "boundmethod":
            return self._call_func(fn[1], args, {}, bound=fn[2])
        if callable(fn):
            return fn(*args)
        raise Unmodelled(f"value {fn!r} is not callable in the model")

    def _call_func(self, g: FuncInfo, args: List[Any], kwargs: Dict[str, Any], bound: Optional[ClassVal]) -> Any:
        a = g.node.args  # type: ignore[attr-defined]
        names = [x.arg for x in a.posonlyargs + a.args]
        amap: Dict[str, Any] = {}
        decos = g.decorators
        if g.cls is not None and "staticmethod" not in decos:
            if bound is None:
                raise Unmodelled(f"unbound method call {g.qualname}")
            names = names[1:]
        for n, v in zip(names, args):
            amap[n] = v
        if len(args) > len(names):
            raise Unmodelled(f"too many positional args for {g.qualname}")
        amap.update(kwargs)
        return self.call(g, amap, bound_cls=bound)
