"""Call-scoped class state: an operator class attribute that a method assigns (`cls.A = ...`) outlives the call.

The operator classes are never instantiated; `cls.A = ...` inside a classmethod writes process-wide state.  The result of the
call is a function of its arguments only if every later use of A inside the same call (a direct read of `cls.A`, or a call to a
method of the class / a base that reads it) is preceded, on every path, by a write made in this call.  Otherwise the value read is
whatever an earlier call left behind: the type reported for `round(x)` would depend on whether `round(x, 2)` ran before.

The decision is a definite-assignment analysis over the structured statement tree with guard facts: a write under `if G` covers a
use under a guard with the same text and polarity (tests are compared by their normalised text; their operands are parameters and
class constants that are not reassigned in between, which is checked), and writes in the two arms of an `if/else` cover jointly.
"""
from __future__ import annotations

import ast
import itertools
from typing import Dict, List, Optional, Set, Tuple

from sa.core import ClassInfo, FuncInfo, Program, src

Cond = Tuple[str, bool]  # (normalised test text | loop@line | try@line, polarity)


def _conds_of(fn: ast.AST) -> Dict[int, Tuple[List[Cond], ast.AST]]:
    """id(stmt) -> (enclosing conditions, stmt) for every statement of the function (nested defs excluded)."""
    out: Dict[int, Tuple[List[Cond], ast.AST]] = {}

    def block(stmts: List[ast.stmt], conds: List[Cond]) -> None:
        for st in stmts:
            out[id(st)] = (list(conds), st)
            if isinstance(st, ast.If):
                t = src(st.test)
                neg = isinstance(st.test, ast.UnaryOp) and isinstance(st.test.op, ast.Not)
                key = src(st.test.operand) if neg else t  # type: ignore[union-attr]
                block(st.body, conds + [(key, not neg)])
                block(st.orelse, conds + [(key, neg)])
            elif isinstance(st, (ast.For, ast.AsyncFor, ast.While)):
                block(st.body, conds + [(f"<loop@{st.lineno} runs>", True)])
                block(st.orelse, conds)
            elif isinstance(st, ast.Try):
                block(st.body, conds + [(f"<try@{st.lineno} completes>", True)])
                for h in st.handlers:
                    block(h.body, conds + [(f"<handler@{h.lineno} entered>", True)])
                block(st.orelse, conds + [(f"<try@{st.lineno} completes>", True)])
                block(st.finalbody, conds)
            elif isinstance(st, (ast.With, ast.AsyncWith)):
                block(st.body, conds)
            elif isinstance(st, ast.Match):
                for i, c in enumerate(st.cases):
                    block(c.body, conds + [(f"<case {i}@{st.lineno}>", True)])
    block(fn.body, [])  # type: ignore[attr-defined]
    return out


def _own_exprs(st: ast.AST) -> List[ast.AST]:
    """Expressions evaluated by the statement itself (not by nested blocks)."""
    if isinstance(st, ast.If):
        return [st.test]
    if isinstance(st, (ast.For, ast.AsyncFor)):
        return [st.iter]
    if isinstance(st, ast.While):
        return [st.test]
    if isinstance(st, (ast.With, ast.AsyncWith)):
        return [i.context_expr for i in st.items]
    if isinstance(st, (ast.Try, ast.FunctionDef, ast.AsyncFunctionDef, ast.ClassDef, ast.Match)):
        return [st.subject] if isinstance(st, ast.Match) else []
    return [st]


def _reads_attr(e: ast.AST, recv: Set[str], attr: str) -> Optional[ast.AST]:
    for n in ast.walk(e):
        if isinstance(n, ast.Attribute) and n.attr == attr and isinstance(n.ctx, ast.Load) and isinstance(n.value, ast.Name) and n.value.id in recv:
            return n
    return None


def _dead_argument_reads(P: Program, f: FuncInfo) -> Set[int]:
    """ids of `cls.A` loads that are only handed, as an argument, to an in-repo function whose parameter at that position is never
    loaded in any possible callee (e.g. check_unary_implicit_promotion(..., return_type) ignores return_type): the value read
    cannot influence the result."""
    out: Set[int] = set()
    for c in ast.walk(f.node):
        if not isinstance(c, ast.Call):
            continue
        cands = [(i, a, None) for i, a in enumerate(c.args)] + [(None, k.value, k.arg) for k in c.keywords if k.arg]
        cands = [x for x in cands if isinstance(x[1], ast.Attribute) and isinstance(x[1].value, ast.Name) and x[1].value.id in ("cls", "self")]
        if not cands:
            continue
        callees = [P.functions[q] for q in P.resolve_call(f, c) if q in P.functions]
        if not callees:
            continue
        for i, a, kw in cands:
            ok = True
            for g in callees:
                ga = g.node.args  # type: ignore[attr-defined]
                names = [x.arg for x in ga.posonlyargs + ga.args]
                if g.cls is not None and "staticmethod" not in g.decorators and isinstance(c.func, ast.Attribute):
                    names = names[1:]
                pname = kw if kw is not None else (names[i] if i is not None and i < len(names) else None)
                if pname is None or ga.vararg is not None and kw is None and i is not None and i >= len(names) or ga.kwarg is not None and kw is not None and kw not in names + [x.arg for x in ga.kwonlyargs]:
                    ok = False
                    break
                if any(isinstance(n, ast.Name) and n.id == pname and isinstance(n.ctx, ast.Load) for n in ast.walk(g.node)):
                    ok = False
                    break
            if ok:
                out.add(id(a))
    return out


def transitive_readers(P: Program, c: ClassInfo) -> Dict[str, Set[str]]:
    """method name -> class attributes it may read through cls./self. (following cls.m(), self.m(), super().m() inside the MRO)."""
    mro = P.mro(c)
    direct: Dict[str, Set[str]] = {}
    calls: Dict[str, Set[str]] = {}
    for k in mro:
        for name, f in k.methods.items():
            rd = direct.setdefault(name, set())
            cl = calls.setdefault(name, set())
            dead = _dead_argument_reads(P, f)
            for n in ast.walk(f.node):
                if isinstance(n, ast.Attribute) and isinstance(n.ctx, ast.Load) and isinstance(n.value, ast.Name) and n.value.id in ("cls", "self") \
                        and id(n) not in dead:
                    rd.add(n.attr)
                if isinstance(n, ast.Call) and isinstance(n.func, ast.Attribute):
                    v = n.func.value
                    if (isinstance(v, ast.Name) and v.id in ("cls", "self")) or (
                            isinstance(v, ast.Call) and isinstance(v.func, ast.Name) and v.func.id == "super"):
                        cl.add(n.func.attr)
    changed = True
    while changed:
        changed = False
        for m, cs in calls.items():
            for callee in cs:
                extra = direct.get(callee, set()) - direct[m]
                if extra:
                    direct[m] |= extra
                    changed = True
    return direct


def stale_reads(P: Program, f: FuncInfo) -> Tuple[List[dict], int]:
    """Findings for one method: uses of a class attribute the method itself assigns that some path reaches without the write.
    Returns (findings, number of (attribute, use) obligations examined)."""
    if f.cls is None:
        return [], 0
    recv = {"cls"} if "classmethod" in f.decorators else {"cls", "self"}
    conds = _conds_of(f.node)
    writes: Dict[str, List[Tuple[int, List[Cond]]]] = {}
    for cs, st in conds.values():
        tgts: List[ast.AST] = []
        if isinstance(st, ast.Assign):
            tgts = list(st.targets)
        elif isinstance(st, (ast.AnnAssign, ast.AugAssign)):
            tgts = [st.target]
        for t in tgts:
            for tt in (t.elts if isinstance(t, (ast.Tuple, ast.List)) else [t]):
                if isinstance(tt, ast.Attribute) and isinstance(tt.value, ast.Name) and tt.value.id == "cls":
                    writes.setdefault(tt.attr, []).append((st.lineno, cs))
    if not writes:
        return [], 0
    readers = transitive_readers(P, f.cls)
    # names assigned inside the function: a guard over one of them is not a stable fact
    reassigned: Set[str] = set()
    for cs, st in conds.values():
        for n in ast.walk(st) if not isinstance(st, (ast.If, ast.For, ast.While, ast.Try, ast.With)) else []:
            if isinstance(n, ast.Name) and isinstance(n.ctx, ast.Store):
                reassigned.add(n.id)
    out: List[dict] = []
    nob = 0
    for attr, ws in writes.items():
        for cs, st in sorted(conds.values(), key=lambda x: x[1].lineno):
            uses: List[Tuple[ast.AST, str]] = []
            for e in _own_exprs(st):
                if isinstance(e, (ast.Assign, ast.AnnAssign)):
                    val = e.value
                    r = _reads_attr(val, recv, attr) if val is not None else None
                else:
                    r = _reads_attr(e, recv, attr)
                if r is not None:
                    uses.append((r, f"reads `{src(r)}`"))
                for n in ast.walk(e):
                    if isinstance(n, ast.Call) and isinstance(n.func, ast.Attribute):
                        v = n.func.value
                        is_self = isinstance(v, ast.Name) and v.id in recv
                        is_super = isinstance(v, ast.Call) and isinstance(v.func, ast.Name) and v.func.id == "super"
                        if (is_self or is_super) and attr in readers.get(n.func.attr, set()):
                            uses.append((n, f"calls `{src(n.func)}(...)`, which reads the attribute"))
            for node, how in uses:
                nob += 1
                before = [(ln, wc) for ln, wc in ws if ln < st.lineno]
                cu = dict(cs)
                # residual conjunctions of the writes, given the use's own guards
                residual: List[Dict[str, bool]] = []
                for _ln, wc in before:
                    r_: Dict[str, bool] = {}
                    contradicted = False
                    for k, pol in wc:
                        if k in cu:
                            if cu[k] != pol:
                                contradicted = True
                            continue
                        r_[k] = pol
                    if not contradicted:
                        residual.append(r_)
                atoms = sorted({k for r_ in residual for k in r_})
                unstable = [k for k in atoms if not k.startswith("<")
                            and any(isinstance(n, ast.Name) and n.id in reassigned for n in ast.walk(ast.parse(k, mode="eval")))]
                hole: Optional[Dict[str, bool]] = None
                if len(atoms) > 12:
                    hole = {"<too many guards>": True}
                else:
                    for vals in itertools.product((True, False), repeat=len(atoms)):
                        asg = dict(zip(atoms, vals))
                        if not any(all(asg[k] == pol for k, pol in r_.items()) for r_ in residual):
                            hole = asg
                            break
                if hole is not None or (unstable and not any(not r_ for r_ in residual)):
                    out.append({"attr": attr, "line": st.lineno, "how": how, "writes": [ln for ln, _ in ws],
                                "hole": {k: v for k, v in (hole or {}).items()},
                                "unstable": unstable})
    return out, nob
