"""Extraction of the SQL operator registry (duckdb_transpiler/Transpiler/operators.py::_create_default_registry) as a table:
(token value, arity or type name) -> SQL template with {0} {1} … placeholders.  Loops over constant lists are unrolled;
custom generators (lambdas / nested functions) are lowered by evaluating them on the placeholder strings with the E6
evaluator."""
from __future__ import annotations

import ast
from dataclasses import dataclass
from typing import Any, Dict, List, Optional, Tuple

from sa.core import AnalysisError, FuncInfo, Program, src
from sa.e6 import Interp, Raised, Unmodelled

OPS = "vtlengine.duckdb_transpiler.Transpiler.operators"


@dataclass
class RegEntry:
    token: str
    token_name: str
    kind: str  # arity:<n> | typed:<Type> | custom
    templates: Dict[int, str]  # number of operands -> SQL
    line: int


def _const(P: Program, f: FuncInfo, e: ast.AST, env: Dict[str, Any]) -> Any:
    if isinstance(e, ast.Name) and e.id in env:
        return env[e.id]
    if isinstance(e, ast.JoinedStr):
        out = ""
        for v in e.values:
            if isinstance(v, ast.Constant):
                out += str(v.value)
            else:
                out += str(_const(P, f, v.value, env))  # type: ignore[attr-defined]
        return out
    if isinstance(e, (ast.Tuple, ast.List)):
        return [_const(P, f, x, env) for x in e.elts]
    vals = P.const_values(f, f.module, e)
    if vals is None or len(vals) != 1:
        raise AnalysisError(f"registry: cannot fold `{src(e)[:50]}` to a constant")
    return next(iter(vals))


def extract(P: Program) -> List[RegEntry]:
    f = P.func(f"{OPS}._create_default_registry")
    out: List[RegEntry] = []
    local_lists: Dict[str, ast.AST] = {}
    local_calls: Dict[str, ast.Call] = {}
    # the registry object is whatever local the function returns (its name is irrelevant)
    returned = {n.value.id for n in ast.walk(f.node) if isinstance(n, ast.Return) and isinstance(n.value, ast.Name)}
    if not returned:
        raise AnalysisError("_create_default_registry does not return a local registry object")

    def handle_call(c: ast.Call, env: Dict[str, Any]) -> None:
        if not (isinstance(c.func, ast.Attribute) and isinstance(c.func.value, ast.Name) and c.func.value.id in returned):
            return
        meth = c.func.attr
        if meth not in ("register", "register_typed", "register_custom"):
            return
        tok_node = c.args[0]
        token = _const(P, f, tok_node, env)
        tname = src(tok_node).split(".")[-1] if not (isinstance(tok_node, ast.Name) and tok_node.id in env) else str(token)
        kw = {k.arg: k.value for k in c.keywords}
        if meth == "register":
            tmpl = _const(P, f, c.args[1], env)
            ar = _const(P, f, kw["arity"], env) if "arity" in kw else 0
            if ar == 0:
                ar = tmpl.count("{") - tmpl.count("{{") * 2
                if ar <= 0:
                    ar = 1
            out.append(RegEntry(token, tname, f"arity:{ar}", {ar: tmpl}, c.lineno))
        elif meth == "register_typed":
            tmpl = _const(P, f, c.args[2], env)
            n = len(set(__import__("re").findall(r"\{(\d)\}", tmpl)))
            out.append(RegEntry(token, tname, f"typed:{src(c.args[1])}", {n: tmpl}, c.lineno))
        else:
            op = c.args[1]
            if isinstance(op, ast.Name) and op.id in local_calls:
                op = local_calls[op.id]  # the operator object was built in a preceding statement
            okw = {k.arg: k.value for k in op.keywords} if isinstance(op, ast.Call) else {}
            gen = okw.get("custom_generator")
            templates: Dict[int, str] = {}
            if gen is None:
                if "sql_template" in okw:
                    t = _const(P, f, okw["sql_template"], env)
                    templates[max(1, t.count("{"))] = t
            else:
                templates = lower_generator(P, f, gen, env)
            out.append(RegEntry(token, tname, "custom", templates, c.lineno))

    def walk(body: List[ast.stmt], env: Dict[str, Any]) -> None:
        for st in body:
            if isinstance(st, ast.Assign) and len(st.targets) == 1 and isinstance(st.targets[0], ast.Name) and isinstance(st.value, (ast.List, ast.Tuple)):
                local_lists[st.targets[0].id] = st.value
            if isinstance(st, ast.Assign) and len(st.targets) == 1 and isinstance(st.targets[0], ast.Name) and isinstance(st.value, ast.Call):
                local_calls[st.targets[0].id] = st.value
            if isinstance(st, ast.Expr) and isinstance(st.value, ast.Call):
                handle_call(st.value, env)
            elif isinstance(st, ast.For):
                it = st.iter
                if isinstance(it, ast.Name) and it.id in local_lists:
                    it = local_lists[it.id]
                if not isinstance(it, (ast.List, ast.Tuple)):
                    raise AnalysisError(f"registry: loop over non-constant `{src(st.iter)}` not modelled")
                for elt in it.elts:
                    env2 = dict(env)
                    if isinstance(st.target, ast.Name):
                        env2[st.target.id] = _const(P, f, elt, env)
                    else:
                        vals = _const(P, f, elt, env)
                        for t, v in zip(st.target.elts, vals):  # type: ignore[attr-defined]
                            env2[t.id] = v
                    walk(st.body, env2)
    walk(f.node.body, {})  # type: ignore[attr-defined]
    if len(out) < 60:
        raise AnalysisError(f"operator registry: only {len(out)} entries extracted (anchor changed)")
    return out


def lower_generator(P: Program, f: FuncInfo, gen: ast.AST, env: Dict[str, Any]) -> Dict[int, str]:
    """SQL produced by a custom generator for 1..4 placeholder operands."""
    out: Dict[int, str] = {}
    phs = ["{0}", "{1}", "{2}", "{3}"]
    if isinstance(gen, ast.Lambda):
        names = [a.arg for a in gen.args.args]
        it = Interp(P)
        fake = FuncInfo(f"{f.qualname}.<lambda>", f.module, ast.parse("def _l(): pass").body[0])
        out[len(names)] = str(it.eval(gen.body, dict(zip(names, phs)), fake))
        return out
    target: Optional[FuncInfo] = None
    closure: Dict[str, Any] = {}
    if isinstance(gen, ast.Name):
        target = P.functions.get(f"{f.qualname}.<locals>.{gen.id}")
    elif isinstance(gen, ast.Call) and isinstance(gen.func, ast.Name):
        factory = P.functions.get(f"{f.qualname}.<locals>.{gen.func.id}")
        if factory is not None:
            inner = [g for g in P.functions.values() if g.parent is factory]
            if len(inner) == 1:
                target = inner[0]
                for pn, a in zip([p for p in factory.params], gen.args):
                    closure[pn] = _const(P, f, a, env)
    if target is None:
        raise AnalysisError(f"registry: custom generator `{src(gen)[:40]}` not resolvable")
    for n in (1, 2, 3, 4):
        it = Interp(P)
        try:
            r = it.call(target, {"*": phs[:n]}, closure=closure)
        except (Raised, Unmodelled, IndexError, TypeError):
            continue
        if isinstance(r, str):
            out[n] = r
    if not out:
        raise AnalysisError(f"registry: custom generator `{src(gen)[:40]}` produced no SQL under evaluation")
    return out


def registry_sql(entries: List[RegEntry], token: str, *operands: Any) -> str:
    """What OperatorRegistry.sql(token, *operands) returns, computed from the extracted entries: the template registered for that
    number of operands, else the token's default (arity-0 / custom) template formatted with ALL operands - str.format ignores
    surplus arguments, exactly as the repository's SQLOperator.sql does."""
    cands = [e for e in entries if e.token == token and not e.kind.startswith("typed")]
    if not cands:
        return f"{token.upper()}({', '.join(map(str, operands))})"
    n = len(operands)
    for e in cands:
        if n in e.templates:
            return e.templates[n].format(*operands)
    e = cands[-1]
    t = e.templates[max(e.templates)]
    try:
        return t.format(*operands)
    except IndexError:
        raise AnalysisError(f"registry: template of {token} needs more operands than {n}: `{t}`")
