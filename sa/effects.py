"""E2 - interprocedural parameter-mutation (alias/effect) analysis.

Abstract values are sets of taints (kind, origin):
  S(o)  the value IS the caller's object passed as parameter `o`
  E(o)  the value is an object reachable from inside `o` (element / value / attribute / column)
  Ck(o) the value is a FRESH container/object; objects of `o` sit k levels below it (C1: its direct elements may be
        o's objects - shallow copy, comprehension, object constructed from them; C2: it holds C1 objects; ...)
Mutating a receiver that is S or E is a mutation of caller-visible state; mutating a C receiver is not, but
taking an element out of a C (or S/E) value yields E.  copy.deepcopy cuts everything.

The analysis is flow-sensitive inside a function (statements in order, branches joined, loop bodies iterated to
a fixpoint of at most 3 rounds), context-sensitive across calls (summaries memoised per callee × parameter
taint pattern, depth-bounded), and uses the E0 resolver for callees.  External library calls are assumed neither to
mutate their arguments nor to return objects sharing mutable state with them (except the shallow-copy builtins and
element accessors modelled explicitly); the externals actually met with tainted arguments are listed in the evidence.
Unresolved internal-looking calls return a fresh holder (C) of their tainted arguments.
"""
from __future__ import annotations

import ast
from dataclasses import dataclass, field
from typing import Dict, FrozenSet, List, Optional, Set, Tuple

from sa.core import norm_locals, FuncInfo, Program, dotted, src

Taint = Tuple[str, str]  # (kind, origin)
TS = FrozenSet[Taint]
EMPTY: TS = frozenset()

MUTATORS = {"update", "pop", "popitem", "clear", "setdefault", "append", "extend", "insert", "remove", "sort", "reverse",
            "add", "discard", "__setitem__", "__delitem__", "difference_update", "intersection_update"}
INPLACE_CAPABLE = {"drop", "rename", "reset_index", "fillna", "replace", "sort_values", "set_index", "drop_duplicates", "dropna",
                   "sort_index", "rename_axis", "set_axis", "mask", "where", "interpolate", "ffill", "bfill", "clip", "query", "eval"}
SHALLOW_COPY_FUNCS = {"dict", "list", "set", "tuple", "sorted", "frozenset", "reversed", "enumerate", "zip", "iter", "filter", "map"}
ELEMENT_METHODS = {"get", "__getitem__"}
VIEW_METHODS = {"items", "values", "keys", "iterrows", "itertuples", "__iter__"}


MAXD = 6


def elem(ts: TS) -> TS:
    """taint of an element taken out of a value: S/E/C1 -> E ; Ck -> C(k-1)"""
    out = set()
    for k, o in ts:
        if k in ("S", "E", "C1"):
            out.add(("E", o))
        else:
            out.add((f"C{int(k[1:]) - 1}", o))
    return frozenset(out)


def cont(ts: TS) -> TS:
    """taint of a FRESH object/container that holds the value: S/E -> C1 ; Ck -> C(k+1)"""
    out = set()
    for k, o in ts:
        if k in ("S", "E"):
            out.add(("C1", o))
        else:
            out.add((f"C{min(int(k[1:]) + 1, MAXD)}", o))
    return frozenset(out)


def live(ts: TS) -> TS:
    """taints under which a mutation of the receiver is visible to the caller"""
    return frozenset(t for t in ts if t[0] in ("S", "E"))


_IMMUTABLE_TOKENS = {"str", "int", "bool", "float", "bytes", "None", "Optional", "Union", "Type", "Literal", "Tuple", "tuple", "frozenset",
                     "Any_"}


def immutable_fields(P: Program) -> Set[str]:
    """Attribute names that are declared (class-level annotations) ONLY with immutable types in the repository:
    str/int/bool/float/None, Type[...] (classes), and Enum classes.  Reading such a field of a tainted object yields an
    immutable value, i.e. nothing that can be mutated through it."""
    import re
    enum_or_type: Set[str] = set()
    for c in P.classes.values():
        if any(b.split(".")[-1] in ("Enum", "IntEnum", "StrEnum") for b in c.bases):
            enum_or_type.add(c.name)
    enum_or_type |= {"Role", "ScalarType", "DataType"}
    seen: Dict[str, bool] = {}
    for c in P.classes.values():
        for st in c.node.body:
            if isinstance(st, ast.AnnAssign) and isinstance(st.target, ast.Name):
                text = st.annotation.value if isinstance(st.annotation, ast.Constant) and isinstance(st.annotation.value, str) else src(st.annotation)
                toks = set(re.findall(r"[A-Za-z_]\w*", text))
                imm = bool(toks) and toks <= (_IMMUTABLE_TOKENS | enum_or_type)
                seen[st.target.id] = seen.get(st.target.id, True) and imm
    return {k for k, v in seen.items() if v}


@dataclass
class MutationSite:
    func: str
    file: str
    line: int
    text: str
    origins: Tuple[str, ...]
    chain: Tuple[str, ...]
    kind: str
    norm: str = ""  # text with the function's local variables replaced by § (key that survives renaming of locals)


@dataclass
class Summary:
    ret: TS = EMPTY
    sites: List[MutationSite] = field(default_factory=list)


class EffectAnalysis:
    def __init__(self, P: Program, max_depth: int = 9) -> None:
        self.P = P
        self.max_depth = max_depth
        self.memo: Dict[Tuple[str, Tuple[Tuple[str, TS], ...]], Summary] = {}
        self.in_progress: Set[Tuple[str, Tuple[Tuple[str, TS], ...]]] = set()
        self.externals_with_taint: Dict[str, int] = {}
        self.functions_analysed: Set[str] = set()
        self.unresolved_with_taint: Dict[str, int] = {}
        self.immutable_fields = immutable_fields(P)
        # optional extra origins: method names whose result / attribute names of `self` whose value IS a stored, shared object
        self.source_calls: Dict[str, str] = {}
        self.source_attrs: Dict[str, str] = {}
        # method names whose result is a FRESH object holding shared parts (a shallow copy of a stored object): C1(origin)
        self.source_calls_fresh: Dict[str, str] = {}
        # optional: taints stored into attributes of `self` (instance state that carries a value from one method to another); filled while
        # analysing when track_self_attrs is set, read back on `self.<attr>` loads - run the methods twice to reach the fixpoint of one hop
        self.track_self_attrs = False
        self.attr_taints: Dict[str, TS] = {}

    # ---- entry -----------------------------------------------------------------------------------
    def analyse_entry(self, qualname: str) -> Summary:
        f = self.P.func(qualname)
        params = {p: frozenset({("S", p)}) for p in f.params if p not in ("self", "cls")}
        return self.analyse(f, params, (qualname,))

    def analyse(self, f: FuncInfo, params: Dict[str, TS], chain: Tuple[str, ...]) -> Summary:
        key = (f.qualname, tuple(sorted((k, v) for k, v in params.items() if v)))
        if key in self.memo:
            return self.memo[key]
        if key in self.in_progress or len(chain) > self.max_depth:
            return Summary()
        self.in_progress.add(key)
        self.functions_analysed.add(f.qualname)
        st = _FuncState(self, f, chain)
        env: Dict[str, TS] = {p: params.get(p, EMPTY) for p in f.params}
        st.block(f.node.body, env)  # type: ignore[attr-defined]
        summ = Summary(ret=st.ret, sites=st.sites)
        self.in_progress.discard(key)
        self.memo[key] = summ
        return summ


class _FuncState:
    def __init__(self, A: EffectAnalysis, f: FuncInfo, chain: Tuple[str, ...]) -> None:
        self.A = A
        self.f = f
        self.chain = chain
        self.ret: TS = EMPTY
        self.sites: List[MutationSite] = []

    # ---- helpers ---------------------------------------------------------------------------------
    def site(self, node: ast.AST, ts: TS, kind: str) -> None:
        lv = live(ts)
        if not lv:
            return
        text = src(node).splitlines()[0][:110]
        s = MutationSite(self.f.qualname, self.f.module.rel, getattr(node, "lineno", 0), text,
                         tuple(sorted({o for _, o in lv})), self.chain, kind, norm_locals(text, self.f.node))
        if not any(x.func == s.func and x.text == s.text and x.origins == s.origins for x in self.sites):
            self.sites.append(s)

    def join(self, a: Dict[str, TS], b: Dict[str, TS]) -> Dict[str, TS]:
        out = dict(a)
        for k, v in b.items():
            out[k] = out.get(k, EMPTY) | v
        return out

    # ---- statements --------------------------------------------------------------------------------
    def block(self, body: List[ast.stmt], env: Dict[str, TS]) -> Dict[str, TS]:
        for st in body:
            env = self.stmt(st, env)
        return env

    def stmt(self, st: ast.stmt, env: Dict[str, TS]) -> Dict[str, TS]:  # noqa: C901
        if isinstance(st, ast.Assign):
            v = self.ev(st.value, env)
            for t in st.targets:
                env = self.assign(t, v, env, st)
            return env
        if isinstance(st, ast.AnnAssign):
            if st.value is not None:
                env = self.assign(st.target, self.ev(st.value, env), env, st)
            return env
        if isinstance(st, ast.AugAssign):
            v = self.ev(st.value, env)
            if isinstance(st.target, ast.Name):
                cur = env.get(st.target.id, EMPTY)
                # x += y on a list/dict mutates x in place
                self.site(st, cur, "augassign")
                env = dict(env)
                env[st.target.id] = cur | cont(v)
            else:
                base = self.ev(st.target.value, env)  # type: ignore[attr-defined]
                self.site(st, base, "augassign-target")
            return env
        if isinstance(st, ast.Delete):
            for t in st.targets:
                if isinstance(t, (ast.Subscript, ast.Attribute)):
                    self.site(st, self.ev(t.value, env), "del")
            return env
        if isinstance(st, ast.Expr):
            self.ev(st.value, env)
            return env
        if isinstance(st, ast.Return):
            if st.value is not None:
                self.ret = self.ret | self.ev(st.value, env)
            return env
        if isinstance(st, ast.If):
            self.ev(st.test, env)
            a = self.block(st.body, dict(env))
            b = self.block(st.orelse, dict(env))
            return self.join(a, b)
        if isinstance(st, (ast.For, ast.AsyncFor)):
            cur = dict(env)
            for _ in range(3):
                e2 = self.bind_iteration(st.target, st.iter, dict(cur), st)
                e2 = self.block(st.body, e2)
                nxt = self.join(cur, e2)
                if nxt == cur:
                    break
                cur = nxt
            cur = self.block(st.orelse, cur)
            return cur
        if isinstance(st, ast.While):
            self.ev(st.test, env)
            cur = dict(env)
            for _ in range(3):
                e2 = self.block(st.body, dict(cur))
                nxt = self.join(cur, e2)
                if nxt == cur:
                    break
                cur = nxt
            return self.block(st.orelse, cur)
        if isinstance(st, (ast.With, ast.AsyncWith)):
            for i in st.items:
                v = self.ev(i.context_expr, env)
                if i.optional_vars is not None:
                    env = self.assign(i.optional_vars, cont(v), env, st)
            return self.block(st.body, env)
        if isinstance(st, ast.Try):
            e1 = self.block(st.body, dict(env))
            out = self.block(st.orelse, dict(e1))
            for h in st.handlers:
                eh = self.join(env, e1)
                if h.name:
                    eh = dict(eh)
                    eh[h.name] = EMPTY
                out = self.join(out, self.block(h.body, eh))
            return self.block(st.finalbody, out)
        if isinstance(st, ast.Raise):
            if st.exc is not None:
                self.ev(st.exc, env)
            return env
        if isinstance(st, (ast.FunctionDef, ast.AsyncFunctionDef)):
            return env  # nested defs are analysed when called (closure variables approximated by current env at call)
        if isinstance(st, ast.Match):
            self.ev(st.subject, env)
            out = dict(env)
            for c in st.cases:
                out = self.join(out, self.block(c.body, dict(env)))
            return out
        return env

    def _hold(self, target: ast.AST, v: TS, env: Dict[str, TS]) -> Dict[str, TS]:
        """after `root.a[b].c = v` the local `root` holds v as many levels down as the access path is long"""
        depth = 0
        root = target
        while isinstance(root, (ast.Subscript, ast.Attribute)):
            root = root.value
            depth += 1
        if isinstance(root, ast.Name) and v:
            held = v
            for _ in range(max(depth, 1)):
                held = cont(held)
            env = dict(env)
            env[root.id] = env.get(root.id, EMPTY) | held
        return env

    def bind_iteration(self, target: ast.AST, it: ast.AST, env: Dict[str, TS], node: ast.AST) -> Dict[str, TS]:
        """`for target in it` with the pair-producing iterables modelled: d.items(), enumerate(x), zip(a, b)."""
        if isinstance(it, ast.Call) and isinstance(it.func, ast.Attribute) and it.func.attr == "items" and not it.args \
                and isinstance(target, (ast.Tuple, ast.List)) and len(target.elts) == 2:
            d = self.ev(it.func.value, env)
            env = self.assign(target.elts[0], EMPTY, env, node)
            return self.assign(target.elts[1], elem(d), env, node)
        if isinstance(it, ast.Call) and isinstance(it.func, ast.Name) and it.func.id == "enumerate" and it.args \
                and isinstance(target, (ast.Tuple, ast.List)) and len(target.elts) == 2:
            env = self.assign(target.elts[0], EMPTY, env, node)
            return self.bind_iteration(target.elts[1], it.args[0], env, node)
        if isinstance(it, ast.Call) and isinstance(it.func, ast.Name) and it.func.id == "zip" \
                and isinstance(target, (ast.Tuple, ast.List)) and len(target.elts) == len(it.args):
            for t_, a_ in zip(target.elts, it.args):
                env = self.bind_iteration(t_, a_, env, node)
            return env
        if isinstance(it, ast.Call) and isinstance(it.func, ast.Attribute) and it.func.attr in ("values", "keys") and not it.args:
            d = self.ev(it.func.value, env)
            return self.assign(target, elem(d) if it.func.attr == "values" else EMPTY, env, node)
        return self.assign(target, elem(self.ev(it, env)), env, node)

    def assign(self, t: ast.AST, v: TS, env: Dict[str, TS], node: ast.AST) -> Dict[str, TS]:
        if isinstance(t, ast.Name):
            env = dict(env)
            env[t.id] = v
            return env
        if isinstance(t, (ast.Tuple, ast.List)):
            for e in t.elts:
                env = self.assign(e.value if isinstance(e, ast.Starred) else e, elem(v), env, node)
            return env
        if isinstance(t, ast.Subscript):
            base = self.ev(t.value, env)
            self.ev(t.slice, env)
            self.site(node, base, "store-subscript")
            return self._hold(t, v, env)
        if isinstance(t, ast.Attribute):
            base = self.ev(t.value, env)
            self.site(node, base, "store-attribute")
            if self.A.track_self_attrs and isinstance(t.value, ast.Name) and t.value.id == "self" and v:
                self.A.attr_taints[t.attr] = self.A.attr_taints.get(t.attr, EMPTY) | v
            return self._hold(t, v, env)
        if isinstance(t, ast.Starred):
            return self.assign(t.value, v, env, node)
        return env

    # ---- expressions -------------------------------------------------------------------------------
    def ev(self, e: Optional[ast.AST], env: Dict[str, TS]) -> TS:  # noqa: C901
        if e is None:
            return EMPTY
        if isinstance(e, ast.Name):
            return env.get(e.id, EMPTY)
        if isinstance(e, ast.Constant):
            return EMPTY
        if isinstance(e, ast.Attribute):
            if e.attr in self.A.source_attrs and isinstance(e.value, ast.Name) and e.value.id == "self":
                return frozenset({("S", self.A.source_attrs[e.attr])})
            if self.A.track_self_attrs and isinstance(e.value, ast.Name) and e.value.id == "self" and e.attr in self.A.attr_taints:
                return self.A.attr_taints[e.attr] | elem(self.ev(e.value, env))
            base = self.ev(e.value, env)
            if e.attr in self.A.immutable_fields:
                return EMPTY  # field annotated with an immutable type everywhere it is declared in the repo
            return elem(base)
        if isinstance(e, ast.Subscript):
            self.ev(e.slice, env)
            return elem(self.ev(e.value, env))
        if isinstance(e, ast.Starred):
            return self.ev(e.value, env)
        if isinstance(e, (ast.Tuple, ast.List, ast.Set)):
            out = EMPTY
            for x in e.elts:
                out |= cont(self.ev(x, env))
            return out
        if isinstance(e, ast.Dict):
            out = EMPTY
            for k, v in zip(e.keys, e.values):
                if k is not None:
                    self.ev(k, env)
                out |= cont(self.ev(v, env))
            return out
        if isinstance(e, (ast.ListComp, ast.SetComp, ast.GeneratorExp, ast.DictComp)):
            env2 = dict(env)
            for gnr in e.generators:
                env2 = self.bind_iteration(gnr.target, gnr.iter, env2, e)
                for c in gnr.ifs:
                    self.ev(c, env2)
            if isinstance(e, ast.DictComp):
                self.ev(e.key, env2)
                return cont(self.ev(e.value, env2))
            return cont(self.ev(e.elt, env2))
        if isinstance(e, ast.IfExp):
            self.ev(e.test, env)
            return self.ev(e.body, env) | self.ev(e.orelse, env)
        if isinstance(e, ast.BoolOp):
            out = EMPTY
            for x in e.values:
                out |= self.ev(x, env)
            return out
        if isinstance(e, (ast.BinOp,)):
            self.ev(e.left, env)
            self.ev(e.right, env)
            return cont(self.ev(e.left, env) | self.ev(e.right, env))
        if isinstance(e, ast.UnaryOp):
            return cont(self.ev(e.operand, env))
        if isinstance(e, ast.Compare):
            self.ev(e.left, env)
            for c in e.comparators:
                self.ev(c, env)
            return EMPTY
        if isinstance(e, ast.JoinedStr):
            for v in e.values:
                if isinstance(v, ast.FormattedValue):
                    self.ev(v.value, env)
            return EMPTY
        if isinstance(e, ast.NamedExpr):
            v = self.ev(e.value, env)
            env[e.target.id] = v
            return v
        if isinstance(e, ast.Lambda):
            return EMPTY
        if isinstance(e, ast.Await):
            return self.ev(e.value, env)
        if isinstance(e, ast.Call):
            return self.call(e, env)
        return EMPTY

    def call(self, c: ast.Call, env: Dict[str, TS]) -> TS:  # noqa: C901
        fn = c.func
        argv = [self.ev(a, env) for a in c.args]
        kwv = {k.arg: self.ev(k.value, env) for k in c.keywords}
        allargs = frozenset().union(*argv, *kwv.values()) if (argv or kwv) else EMPTY
        d = dotted(fn) or ""
        # copies
        if d in ("copy.deepcopy", "deepcopy"):
            return EMPTY
        if d in ("cast", "typing.cast") and len(argv) == 2:
            return argv[1]
        if d in ("copy.copy", "copy"):
            return cont(allargs)
        if isinstance(fn, ast.Name) and fn.id in SHALLOW_COPY_FUNCS and fn.id not in env:
            return cont(allargs)
        if isinstance(fn, ast.Name) and fn.id in ("len", "str", "int", "float", "bool", "isinstance", "type", "repr", "hash", "id",
                                                   "print", "any", "all", "min", "max", "sum", "abs", "round", "getattr", "hasattr", "callable",
                                                   "issubclass", "range", "open", "next", "vars") and fn.id not in env:
            if fn.id in ("getattr", "next", "min", "max", "vars"):
                return elem(allargs)
            return EMPTY
        recv: TS = EMPTY
        if isinstance(fn, ast.Attribute) and fn.attr in self.A.source_calls:
            return frozenset({("S", self.A.source_calls[fn.attr])})
        if isinstance(fn, ast.Attribute) and fn.attr in self.A.source_calls_fresh and isinstance(fn.value, ast.Name) and fn.value.id == "self":
            return frozenset({("C1", self.A.source_calls_fresh[fn.attr])})
        if isinstance(fn, ast.Attribute):
            recv = self.ev(fn.value, env)
            m = fn.attr
            if m in MUTATORS:
                self.site(c, recv, f"mutator .{m}()")
                if m in ("pop", "popitem", "setdefault"):
                    return elem(recv)
                # container now holds the args
                root = fn.value
                while isinstance(root, (ast.Subscript, ast.Attribute)):
                    root = root.value
                if isinstance(root, ast.Name) and allargs:
                    env[root.id] = env.get(root.id, EMPTY) | cont(allargs)
                return EMPTY
            if m in INPLACE_CAPABLE:
                inplace = [k for k in c.keywords if k.arg == "inplace"]
                if inplace and not (isinstance(inplace[0].value, ast.Constant) and inplace[0].value.value is False):
                    self.site(c, recv, f".{m}(inplace=True)")
                    return EMPTY
                return cont(recv)
            if m == "copy":
                deep_false = any(k.arg == "deep" and isinstance(k.value, ast.Constant) and k.value.value is False for k in c.keywords)
                return cont(recv)
            if m in ELEMENT_METHODS:
                return elem(recv)
            if m in VIEW_METHODS:
                return recv  # a view: iterating it yields the receiver's elements
        # in-repo callee?
        targets = self.A.P.resolve_call(self.f, c)
        # with configured origins a helper method of `self` can RETURN an origin although nothing tainted goes in (`operand = self._resolve_operand(node)`)
        via_self = bool(self.A.source_calls_fresh) and isinstance(fn, ast.Attribute) \
            and isinstance(fn.value, ast.Name) and fn.value.id == "self" and not fn.attr.startswith("visit")
        if targets and (allargs or recv or via_self):
            out = EMPTY
            for tq in targets[:6]:
                g = self.A.P.functions.get(tq)
                if g is None:
                    continue
                pnames = list(g.params)
                amap: Dict[str, TS] = {}
                offset = 0
                if g.cls is not None and "staticmethod" not in g.decorators and pnames and pnames[0] in ("self", "cls"):
                    # bound call: receiver -> self (constructor: fresh object)
                    if g.name not in ("__init__", "__post_init__") and isinstance(fn, ast.Attribute):
                        amap[pnames[0]] = recv
                    offset = 1
                a_ = g.node.args  # type: ignore[attr-defined]
                positional = [x.arg for x in a_.posonlyargs + a_.args][offset:]
                for i, v in enumerate(argv):
                    if i < len(positional):
                        amap[positional[i]] = amap.get(positional[i], EMPTY) | v
                    elif a_.vararg:
                        amap[a_.vararg.arg] = amap.get(a_.vararg.arg, EMPTY) | cont(v)
                for k, v in kwv.items():
                    if k is None:
                        continue
                    if k in pnames:
                        amap[k] = amap.get(k, EMPTY) | v
                    elif a_.kwarg:
                        amap[a_.kwarg.arg] = amap.get(a_.kwarg.arg, EMPTY) | cont(v)
                if g.name in ("__init__", "__post_init__"):
                    out |= cont(allargs)  # a constructed object holds its arguments
                if g.name == "__post_init__" and pnames and allargs:
                    # dataclass: the synthesised __init__ stored the arguments in the fields before __post_init__ runs
                    amap[pnames[0]] = cont(allargs)
                if not any(amap.values()) and not via_self:
                    continue
                summ = self.A.analyse(g, amap, self.chain + (g.qualname,))
                for s in summ.sites:
                    if not any(x.func == s.func and x.text == s.text and x.origins == s.origins for x in self.sites):
                        self.sites.append(s)
                if g.name in ("__init__", "__post_init__"):
                    out |= cont(allargs)
                else:
                    out |= summ.ret
            return out
        if allargs or recv:
            name = d or (fn.attr if isinstance(fn, ast.Attribute) else "?")
            looks_internal = bool(targets) or name.startswith(("self.", "cls.")) or (
                isinstance(fn, ast.Name) and self.A.P.resolve_expr(self.f.module, fn) is not None
                and str(self.A.P.resolve_expr(self.f.module, fn)).startswith("vtlengine."))
            short = name if "." not in name else name.split(".")[-1] if isinstance(fn, ast.Attribute) and not dotted(fn.value) else name
            if looks_internal:
                self.A.unresolved_with_taint[short] = self.A.unresolved_with_taint.get(short, 0) + 1
                return cont(allargs | recv)
            self.A.externals_with_taint[short] = self.A.externals_with_taint.get(short, 0) + 1
        return EMPTY
