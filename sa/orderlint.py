"""R15.1 - order-dependence lint over every SQL skeleton and macro body (shared by C15, C33, C05, C28).

Premise (checked): configure_duckdb_connection sets preserve_insertion_order = false and takes the thread count from
the environment, so no row order is guaranteed by the engine configuration.

Constructs whose VALUE depends on an order the query does not fix:
 (a) ranking / positional window functions (ROW_NUMBER, RANK, DENSE_RANK, NTILE, LAG, LEAD, FIRST_VALUE, LAST_VALUE,
     NTH_VALUE, CUME_DIST, PERCENT_RANK) whose OVER(...) has no ORDER BY and no hole through which the transpiler inserts
     the VTL-specified one; a framed window (ROWS/RANGE BETWEEN) without ORDER BY
 (b) order-sensitive aggregates (list, array_agg, string_agg, group_concat, first, last, any_value, arg_min, arg_max,
     min_by, max_by) without an ORDER BY inside the call
 (c) LIMIT n (n ≠ 0) without ORDER BY in the same statement skeleton
 (d) DISTINCT ON without ORDER BY
 (e) random(), setseed(), uuid(), gen_random_uuid(), now(), current_timestamp, get_current_timestamp
"""
from __future__ import annotations

import ast
import re
from dataclasses import dataclass
from typing import Dict, List, Optional, Tuple

from sa import sqlx
from sa.core import AnalysisError, Program, src, walk_no_nested

RANKING = {"ROW_NUMBER", "RANK", "DENSE_RANK", "NTILE", "LAG", "LEAD", "FIRST_VALUE", "LAST_VALUE", "NTH_VALUE", "CUME_DIST",
           "PERCENT_RANK", "FIRST", "LAST"}
ORDER_AGGS = {"LIST", "ARRAY_AGG", "STRING_AGG", "GROUP_CONCAT", "LISTAGG", "FIRST", "LAST", "ANY_VALUE", "ARG_MIN", "ARG_MAX",
              "MIN_BY", "MAX_BY", "ARBITRARY"}
NONDET = {"RANDOM", "SETSEED", "UUID", "GEN_RANDOM_UUID", "NOW", "CURRENT_TIMESTAMP", "GET_CURRENT_TIMESTAMP", "TRANSACTION_TIMESTAMP"}


@dataclass
class OrderIssue:
    kind: str  # window | aggregate | limit | distinct_on | nondeterministic
    construct: str
    where: str  # function qualname or macro name
    file: str
    line: int
    snippet: str


def _has_order_by(toks: List[sqlx.Tok]) -> bool:
    return any(t.up == "ORDER" and i + 1 < len(toks) and toks[i + 1].up == "BY" for i, t in enumerate(toks))


SAFE_WINDOW_AGGS = {"MIN", "MAX", "SUM", "AVG", "COUNT", "BOOL_AND", "BOOL_OR", "STDDEV_POP", "STDDEV_SAMP", "VAR_POP", "VAR_SAMP", "MEDIAN"}


def lint_text(text: str, where: str, file: str, line: int, hole_values: Optional[Dict[str, set]] = None) -> List[OrderIssue]:
    """hole_values: hole expression -> finite set of strings it can take (resolved by the caller), if known"""
    hole_values = hole_values or {}
    toks = sqlx.tokenize(text)
    out: List[OrderIssue] = []
    n = len(toks)
    for i, t in enumerate(toks):
        # (a) windows
        if t.kind == "ident" and t.up == "OVER" and i + 1 < n and toks[i + 1].text == "(":
            j = sqlx.matching_paren(toks, i + 1)
            inner = toks[i + 2:j]
            # a hole can stand for the ORDER BY the transpiler inserts - unless it is an element of the PARTITION BY column list
            # (directly after `PARTITION BY` or after a comma inside that list): a column list cannot carry an ordering
            holes = []
            in_partition = False
            for idx_, x in enumerate(inner):
                if x.up == "PARTITION":
                    in_partition = True
                elif x.up in ("ORDER", "ROWS", "RANGE", "GROUPS"):
                    in_partition = False
                if x.kind == "hole":
                    prev_ = inner[idx_ - 1] if idx_ > 0 else None
                    if in_partition and prev_ is not None and (prev_.up == "BY" or prev_.text == ","):
                        continue
                    holes.append(x)
            ordered = _has_order_by(inner)
            framed = any(x.up in ("ROWS", "RANGE", "GROUPS") for x in inner)
            # function name: ident ( ... ) OVER   |  hole OVER
            fname = None
            if i >= 1 and toks[i - 1].text == ")":
                depth = 0
                k = i - 1
                while k >= 0:
                    if toks[k].text == ")":
                        depth += 1
                    elif toks[k].text == "(":
                        depth -= 1
                        if depth == 0:
                            break
                    k -= 1
                if k >= 1 and toks[k - 1].kind == "ident":
                    fname = toks[k - 1].up
                elif k >= 1 and toks[k - 1].kind == "hole":
                    fname = toks[k - 1].text
            elif i >= 1 and toks[i - 1].kind == "hole":
                fname = toks[i - 1].text
            if not ordered and not holes:
                hole_fn_safe = False
                if fname is not None and fname.startswith(sqlx.HOLE_L):
                    vals = hole_values.get(fname[1:-1])
                    hole_fn_safe = vals is not None and all(str(v).upper() in SAFE_WINDOW_AGGS for v in vals) and not framed
                if fname in RANKING or framed or (fname is not None and fname.startswith(sqlx.HOLE_L) and not hole_fn_safe):
                    out.append(OrderIssue("window", f"{fname}() OVER ({' '.join(x.text for x in inner)})", where, file, line,
                                          text[max(0, t.pos - 60):t.pos + 60]))
        # (b) order-sensitive aggregates
        if t.kind == "ident" and t.up in ORDER_AGGS and i + 1 < n and toks[i + 1].text == "(" and not (i >= 1 and toks[i - 1].text == "."):
            j = sqlx.matching_paren(toks, i + 1)
            inner = toks[i + 2:j]
            is_window_ordered = False
            if j + 1 < n and toks[j + 1].up == "OVER" and j + 2 < n and toks[j + 2].text == "(":
                j2 = sqlx.matching_paren(toks, j + 2)
                win = toks[j + 3:j2]
                is_window_ordered = _has_order_by(win) and not any(x.kind == "hole" for x in win)
            if not _has_order_by(inner) and not is_window_ordered and inner:
                out.append(OrderIssue("aggregate", f"{t.text}({' '.join(x.text for x in inner)[:40]})", where, file, line,
                                      text[max(0, t.pos - 40):t.pos + 80]))
        # (c) LIMIT
        if t.kind == "ident" and t.up == "LIMIT" and i + 1 < n:
            nxt = toks[i + 1]
            if not (nxt.kind == "number" and float(nxt.text) == 0) and not _has_order_by(toks[:i]):
                out.append(OrderIssue("limit", f"LIMIT {nxt.text}", where, file, line, text[max(0, t.pos - 80):t.pos + 20]))
        # (d) DISTINCT ON
        if t.kind == "ident" and t.up == "DISTINCT" and i + 1 < n and toks[i + 1].up == "ON":
            if not _has_order_by(toks):
                out.append(OrderIssue("distinct_on", "DISTINCT ON without ORDER BY", where, file, line, text[max(0, t.pos - 20):t.pos + 80]))
        # (e) nondeterministic functions
        if t.kind == "ident" and t.up in NONDET and ((i + 1 < n and toks[i + 1].text == "(") or t.up == "CURRENT_TIMESTAMP"):
            out.append(OrderIssue("nondeterministic", t.text, where, file, line, text[max(0, t.pos - 30):t.pos + 40]))
    return out


def lint_program(P: Program) -> Tuple[List[OrderIssue], Dict[str, int]]:
    issues: List[OrderIssue] = []
    nsk = 0
    nwin = 0
    for sk in sqlx.iter_skeletons(P):
        nsk += 1
        nwin += len(re.findall(r"\bOVER\s*\(", sk.text, re.I))
        hv: Dict[str, set] = {}
        for h in sk.holes:
            # hole of the form TABLE[...] where TABLE is a module-level dict of string constants
            mm = re.match(r"^([A-Za-z_]\w*)\[", h)
            if mm and mm.group(1) in sk.module.assigns and isinstance(sk.module.assigns[mm.group(1)], ast.Dict):
                d = sk.module.assigns[mm.group(1)]
                if all(isinstance(v, ast.Constant) and isinstance(v.value, str) for v in d.values):
                    hv[h] = {v.value for v in d.values}  # type: ignore[union-attr]
        issues.extend(lint_text(sk.text, sk.where, sk.module.rel, sk.line, hv))
    macros = sqlx.load_macros(P)
    for m in macros.values():
        nwin += len(re.findall(r"\bOVER\s*\(", m.body, re.I))
        issues.extend(lint_text(m.body, f"macro:{m.name}", m.file, m.line))
    # builder-API forms: SQLBuilder.distinct_on(...) / .limit(...) call chains without .order_by(...)
    for f in P.iter_functions():
        if not f.module.name.startswith(sqlx.SQL_MODULE_PREFIXES):
            continue
        for n in walk_no_nested(f.node):
            if isinstance(n, ast.Call) and isinstance(n.func, ast.Attribute) and n.func.attr in ("distinct_on", "limit") \
                    and f.name not in ("distinct_on", "limit"):
                chain = src(n)
                # the whole fluent chain this call belongs to
                top = n
                while isinstance(getattr(top, "_parent", None), ast.Attribute) and isinstance(getattr(getattr(top, "_parent"), "_parent", None), ast.Call):
                    top = getattr(getattr(top, "_parent"), "_parent")
                if ".order_by(" not in src(top):
                    arg0 = n.args[0] if n.args else None
                    if n.func.attr == "limit" and isinstance(arg0, ast.Constant) and arg0.value == 0:
                        continue
                    issues.append(OrderIssue("distinct_on" if n.func.attr == "distinct_on" else "limit",
                                             f".{n.func.attr}(…) without .order_by(…)", f.qualname, f.module.rel, n.lineno, src(top)[:120]))
    issues.extend(frame_issues(P))
    return issues, {"skeletons": nsk, "macros": len(macros), "over_clauses": nwin}


def frame_issues(P: Program) -> List[OrderIssue]:
    """Window frames built by code rather than written in a skeleton: a ROWS/RANGE frame is order-sensitive, so the statement
    that adds it to an OVER clause must be conditioned on an ORDER BY being emitted too (a conjunct / enclosing test on the
    node's order_by)."""
    out: List[OrderIssue] = []
    seen = 0
    for f in P.iter_functions():
        if not f.module.name.startswith(sqlx.SQL_MODULE_PREFIXES):
            continue
        for n in walk_no_nested(f.node):
            if not (isinstance(n, ast.Call) and isinstance(n.func, ast.Attribute) and n.func.attr == "visit_Windowing"):
                continue
            seen += 1
            ordered = False
            p = getattr(n, "_parent", None)
            while p is not None and not isinstance(p, (ast.FunctionDef, ast.AsyncFunctionDef)):
                if isinstance(p, (ast.If, ast.IfExp)):
                    conj = p.test.values if isinstance(p.test, ast.BoolOp) and isinstance(p.test.op, ast.And) else [p.test]
                    inbody = any(n is x for st in (p.body if isinstance(p, ast.If) else [p.body]) for x in ast.walk(st))
                    if inbody and any(src(c).endswith(".order_by") for c in conj):
                        ordered = True
                p = getattr(p, "_parent", None)
            if not ordered:
                out.append(OrderIssue("window", "frame-without-order-by", f.qualname, f.module.rel, n.lineno,
                                      "a ROWS/RANGE frame (visit_Windowing) is added to the OVER clause whether or not the node has an order_by: "
                                      "`sum(DS_1 over (partition by Id_1))` gets ROWS BETWEEN UNBOUNDED PRECEDING AND CURRENT ROW with no ORDER BY"))
    if seen == 0:
        raise AnalysisError("no call of visit_Windowing found in the SQL-emitting modules (anchor of the frame rule vanished)")
    return out


def premise(P: Program) -> Dict[str, str]:
    f = P.func("vtlengine.duckdb_transpiler.Config.config.configure_duckdb_connection")
    txt = src(f.node)
    m = re.search(r"SET preserve_insertion_order = (\w+)", txt)
    t = re.search(r"SET threads = \{(.*?)\}", txt)
    if not m:
        raise AnalysisError("configure_duckdb_connection no longer sets preserve_insertion_order (premise of the order lint changed)")
    return {"preserve_insertion_order": m.group(1), "threads": t.group(1) if t else "?"}


# Triaged constructs that are order-insensitive for a stated reason; key = where/kind/construct-prefix
EXEMPT: Dict[Tuple[str, str, str], str] = {
    ("vtlengine.duckdb_transpiler.Transpiler.SQLTranspiler._visit_set_operation", "window", "ROW_NUMBER() OVER ()"):
        "union's first-occurrence numbering: DuckDB's streaming ROW_NUMBER() OVER () is an order-dependent operator, so the planner "
        "runs the UNION ALL children sequentially in operand order; operands have unique identifiers, so intra-operand order is "
        "irrelevant. Reproduction attempted (threads 1-16, preserve_insertion_order=false, 5e6 rows, 8 operand shapes): never "
        "misordered. Relies on DuckDB behaviour, not on SQL semantics - recorded as exemption, not as a finding.",
    ("vtlengine.duckdb_transpiler.io._validation.validate_temporal_columns", "limit", "LIMIT 1"):
        "emptiness probe: any row makes the load fail; only WHICH invalid value is quoted in the error message can vary",
    ("vtlengine.duckdb_transpiler.Transpiler.sql_builder.SQLBuilder.build", "limit", "LIMIT ⟦self._limit_value⟧"):
        "builder method; its call sites are linted separately (.limit(…) chains)",
    ("vtlengine.duckdb_transpiler.Transpiler.sql_builder.SQLBuilder.build", "distinct_on", "DISTINCT ON without ORDER BY"):
        "builder method; its call sites are linted separately (.distinct_on(…) chains)",
}
