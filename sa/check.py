"""CLI:  /venv/bin/python -m sa.check <ID> [--tier quick|thorough]
exit 0 = every rule instance held (or is a listed known finding); 1 = VIOLATION; 2 = ANALYSIS-ERROR."""
from __future__ import annotations

import argparse
import importlib
import json
import os
import sys
import traceback
from pathlib import Path

from sa.core import AnalysisError, Report


def main(argv=None) -> int:
    ap = argparse.ArgumentParser()
    ap.add_argument("prop")
    ap.add_argument("--tier", default=os.environ.get("VERIF_TIER", "quick"), choices=["quick", "thorough"])
    a = ap.parse_args(argv)
    prop = a.prop.upper()
    rep = Report(prop, a.tier)
    try:
        mod = importlib.import_module(f"sa.checks.{prop.lower()}")
        mod.run(rep, a.tier)
        rc = rep.finish()
        if a.tier == "thorough":
            from sa import selftest
            rc2 = selftest.run_for(prop)
            if rc2 != 0 and rc == 0:
                rc = rc2
        return rc
    except AnalysisError as e:
        # a rule that lost its anchor must not hide what the rules before it already found
        rc = 2
        try:
            from sa.core import load_known
            known, _fixed = load_known(prop)
            ev_dir = Path(os.environ.get("VERIF_EVIDENCE_DIR", str(Path(__file__).resolve().parent.parent / "evidence")))
            (ev_dir / "replay").mkdir(parents=True, exist_ok=True)
            for i, f in enumerate([f for f in rep.findings if f.key not in known]):
                rp = ev_dir / "replay" / f"{prop}_{i}.json"
                rp.write_text(json.dumps(f.__dict__, indent=1))
                print(f"  {f.file}:{f.line} {f.func} — {f.rule} — {f.message}")
                print(f"VIOLATION property={prop} replay={rp}")
                rc = 1
        except Exception:
            traceback.print_exc()
        print(f"ANALYSIS-ERROR property={prop}: {e}")
        return rc
    except Exception:
        traceback.print_exc()
        print(f"ANALYSIS-ERROR property={prop}: internal error in the checker (see traceback)")
        return 2


if __name__ == "__main__":
    sys.exit(main())
