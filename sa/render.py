"""Renderer analysis shared by C24/C25: the ASTString visitor specialised to one rendering mode (`self.pretty` fixed),
and a class-typed inventory of the node fields it reads (with a light "value is used" filter).
"""
from __future__ import annotations

import ast
import copy
import re
from typing import Dict, List, Optional, Set, Tuple

from sa import e7
from sa.core import AnalysisError, ClassInfo, FuncInfo, Program, src

ASTSTR_MOD = "vtlengine.AST.ASTString"
ASTSTR = f"{ASTSTR_MOD}.ASTString"


class _Prune(ast.NodeTransformer):
    """Resolve tests whose value follows from `facts` (source text of an expression -> its value); `resolve` turns a
    comparator expression into a set of constants (or None)."""

    def __init__(self, facts: Dict[str, object], resolve=None) -> None:
        self.facts = facts
        self.resolve = resolve or (lambda e: {e.value} if isinstance(e, ast.Constant) else None)

    def _const(self, e: ast.AST):
        if isinstance(e, ast.Constant):
            return {e.value}
        return self.resolve(e)

    def _value(self, t: ast.AST) -> Optional[bool]:
        k = src(t)
        if k in self.facts:
            return bool(self.facts[k])
        if isinstance(t, ast.UnaryOp) and isinstance(t.op, ast.Not):
            v = self._value(t.operand)
            return None if v is None else (not v)
        if isinstance(t, ast.Compare) and len(t.ops) == 1 and src(t.left) in self.facts:
            lv = self.facts[src(t.left)]
            op, rhs = t.ops[0], t.comparators[0]
            if isinstance(op, (ast.Is, ast.IsNot)) and isinstance(rhs, ast.Constant) and rhs.value is None:
                return (lv is None) if isinstance(op, ast.Is) else (lv is not None)
            if isinstance(op, (ast.Eq, ast.NotEq)):
                cv = self._const(rhs)
                if cv is not None and len(cv) == 1:
                    eq = lv == next(iter(cv))
                    return eq if isinstance(op, ast.Eq) else (not eq)
            if isinstance(op, (ast.In, ast.NotIn)) and isinstance(rhs, (ast.List, ast.Tuple, ast.Set)):
                vals = set()
                for e in rhs.elts:
                    cv = self._const(e)
                    if cv is None or len(cv) != 1:
                        return None
                    vals |= cv
                return (lv in vals) if isinstance(op, ast.In) else (lv not in vals)
        if isinstance(t, ast.BoolOp):
            vals = [self._value(x) for x in t.values]
            if isinstance(t.op, ast.And):
                if any(v is False for v in vals):
                    return False
                if all(v is True for v in vals):
                    return True
            else:
                if any(v is True for v in vals):
                    return True
                if all(v is False for v in vals):
                    return False
        return None

    def _simplify(self, t: ast.AST) -> ast.AST:
        if isinstance(t, ast.BoolOp):
            keep = [x for x in t.values if self._value(x) is None]
            if len(keep) == 1:
                return keep[0]
            if keep and len(keep) < len(t.values):
                return ast.BoolOp(op=t.op, values=keep)
        return t

    def _seq(self, body):
        out = []
        for s in body:
            r = self.visit(s)
            out.extend(r if isinstance(r, list) else [r])
        return out

    def visit_If(self, node: ast.If):
        v = self._value(node.test)
        if v is True:
            return self._seq(node.body) or [ast.Pass()]
        if v is False:
            return self._seq(node.orelse) or [ast.Pass()]
        node.test = self._simplify(node.test)
        self.generic_visit(node)
        return node

    def visit_IfExp(self, node: ast.IfExp):
        v = self._value(node.test)
        if v is True:
            return self.visit(node.body)
        if v is False:
            return self.visit(node.orelse)
        node.test = self._simplify(node.test)
        self.generic_visit(node)
        return node


def specialise(fn: ast.AST, pretty: bool) -> ast.AST:
    return specialise_facts(fn, {"self.pretty": pretty})


def _clone(fn: ast.AST) -> ast.AST:
    """Copy of a function node without the program model's parent pointers (deepcopy would drag the whole module in).
    Line numbers of the copy are those of the original statements (statement-level granularity)."""
    class _Strip(ast.NodeVisitor):
        pass
    memo: Dict[int, object] = {}

    def cp(n):
        if isinstance(n, ast.AST):
            new = type(n)()
            for k, v in ast.iter_fields(n):
                setattr(new, k, cp(v))
            for a in ("lineno", "col_offset", "end_lineno", "end_col_offset"):
                if hasattr(n, a):
                    setattr(new, a, getattr(n, a))
            return new
        if isinstance(n, list):
            return [cp(x) for x in n]
        return n
    return cp(fn)


def specialise_facts(fn: ast.AST, facts: Dict[str, object], resolve=None) -> ast.AST:
    c = _clone(fn)
    c = _Prune(facts, resolve).visit(c)
    # code after an unconditional return/raise (made unconditional by a resolved test) is dead
    for n in ast.walk(c):
        for fld in ("body", "orelse", "finalbody"):
            blk = getattr(n, fld, None)
            if isinstance(blk, list):
                for i, st in enumerate(blk):
                    if isinstance(st, (ast.Return, ast.Raise)) and i + 1 < len(blk):
                        del blk[i + 1:]
                        break
    ast.fix_missing_locations(c)
    return c


def _ann_classes(ann: str, names: Set[str]) -> Set[str]:
    return set(re.findall(r"[A-Za-z_]\w*", ann)) & names


class TypedReads:
    """For every method of ASTString (in one mode): which (node class, field) pairs are read, attributed through
    parameter annotations, loop/comprehension variables over typed list fields, simple aliases, subscripts of typed
    fields, call-site propagation into helper methods and isinstance narrowing."""

    def __init__(self, P: Program, pretty: bool, cls_qual=ASTSTR, carriers: Optional[List[str]] = None) -> None:
        """cls_qual: one class or a list of classes whose methods are analysed together (first definition of a name wins).
        carriers: qualified names of non-node dataclasses whose annotated fields may hold nodes (e.g. _ParsedHRRule.rule)."""
        self.P = P
        self.pretty = pretty
        quals = [cls_qual] if isinstance(cls_qual, str) else list(cls_qual)
        self.classes: List[ClassInfo] = [P.cls(q) for q in quals]
        self.cls: ClassInfo = self.classes[0]
        self.NC = e7.node_classes(P)
        self.names = set(self.NC)
        self.carrier_fields: Dict[str, Dict[str, str]] = {}
        for cq in carriers or []:
            c = P.cls(cq)
            self.carrier_fields[c.name] = {st.target.id: src(st.annotation) for st in c.node.body
                                           if isinstance(st, ast.AnnAssign) and isinstance(st.target, ast.Name)}
        self.reads: Dict[Tuple[str, str], List[Tuple[str, int]]] = {}
        self.methods: Dict[str, ast.AST] = {}
        self.owners: Dict[str, FuncInfo] = {}
        for c in self.classes:
            for name, f in c.methods.items():
                if name not in self.methods:
                    self.methods[name] = specialise(f.node, pretty)
                    self.owners[name] = f
        self._helper_types: Dict[Tuple[str, str], Set[str]] = {}
        self.envs: Dict[str, Dict[str, Set[str]]] = {}
        for _round in range(3):
            self.reads = {}
            for name, fn in self.methods.items():
                self._scan(name, fn)

    # ---- typing ---------------------------------------------------------------------------
    def _field_types(self, owners: Set[str], fld: str) -> Set[str]:
        out: Set[str] = set()
        allnames = self.names | set(self.carrier_fields)
        for o in owners:
            ann = self.NC[o].fields.get(fld) if o in self.NC else self.carrier_fields.get(o, {}).get(fld)
            if ann:
                out |= _ann_classes(ann, allnames) - {"AST"}
        return out

    def _type(self, e: ast.AST, env: Dict[str, Set[str]]) -> Set[str]:
        if isinstance(e, ast.Name):
            return env.get(e.id, set())
        if isinstance(e, ast.Attribute):
            return self._field_types(self._type(e.value, env), e.attr)
        if isinstance(e, ast.Subscript):
            return self._type(e.value, env)
        return set()

    def _param_env(self, name: str, fn: ast.AST) -> Dict[str, Set[str]]:
        env: Dict[str, Set[str]] = {}
        for a in fn.args.args:
            if a.arg == "self":
                continue
            ts: Set[str] = set()
            if a.annotation is not None:
                ts = _ann_classes(src(a.annotation), self.names | set(self.carrier_fields)) - {"AST"}
            if not ts and name.startswith("visit_"):
                base = name[6:]
                while base and base not in self.names and "_" in base:
                    base = base.rsplit("_", 1)[0]
                if base in self.names and a is [x for x in fn.args.args if x.arg != "self"][0]:
                    ts = {base}
            ts |= self._helper_types.get((name, a.arg), set())
            env[a.arg] = ts
        return env

    def _scan(self, name: str, fn: ast.AST) -> None:
        env = self._param_env(name, fn)
        # bindings (flow-insensitive, iterated to a fixpoint)
        for _ in range(4):
            for n in ast.walk(fn):
                if isinstance(n, (ast.For, ast.comprehension)):
                    it = n.iter
                    if isinstance(it, ast.Call) and isinstance(it.func, ast.Name) and it.func.id == "enumerate" and it.args:
                        it = it.args[0]
                        tgt = n.target.elts[1] if isinstance(n.target, ast.Tuple) and len(n.target.elts) == 2 else None
                    else:
                        tgt = n.target
                    if isinstance(it, ast.Subscript):
                        it = it.value
                    ts = self._type(it, env)
                    if ts and isinstance(tgt, ast.Name):
                        env.setdefault(tgt.id, set()).update(ts)
                elif isinstance(n, ast.Assign) and len(n.targets) == 1 and isinstance(n.targets[0], ast.Name):
                    ts = self._type(n.value, env)
                    if ts:
                        env.setdefault(n.targets[0].id, set()).update(ts)
                elif isinstance(n, ast.Call) and isinstance(n.func, ast.Name) and n.func.id == "isinstance" and len(n.args) == 2 \
                        and isinstance(n.args[0], ast.Name):
                    cl = n.args[1]
                    elts = cl.elts if isinstance(cl, ast.Tuple) else [cl]
                    for c in elts:
                        nm = c.attr if isinstance(c, ast.Attribute) else (c.id if isinstance(c, ast.Name) else None)
                        if nm in self.names and nm != "AST":
                            env.setdefault(n.args[0].id, set()).add(nm)
                elif isinstance(n, ast.AnnAssign) and isinstance(n.target, ast.Name):
                    ts = _ann_classes(src(n.annotation), self.names | set(self.carrier_fields)) - {"AST"}
                    if ts:
                        env.setdefault(n.target.id, set()).update(ts)
        self.envs[name] = env
        # call-site propagation into helpers of the same class
        for n in ast.walk(fn):
            if isinstance(n, ast.Call) and isinstance(n.func, ast.Attribute) and src(n.func.value) == "self" \
                    and n.func.attr in self.methods and n.func.attr != "visit":
                callee = self.methods[n.func.attr]
                params = [a.arg for a in callee.args.args if a.arg != "self"]
                for i, a in enumerate(n.args):
                    ts = self._type(a, env)
                    if ts and i < len(params):
                        self._helper_types.setdefault((n.func.attr, params[i]), set()).update(ts)
        # names whose value is used (loaded) somewhere
        loaded = {x.id for x in ast.walk(fn) if isinstance(x, ast.Name) and isinstance(x.ctx, ast.Load)}
        dead_reads: Set[int] = set()
        for n in ast.walk(fn):
            if isinstance(n, ast.Expr) and isinstance(n.value, ast.Attribute):
                dead_reads.add(id(n.value))
            if isinstance(n, ast.Assign) and len(n.targets) == 1 and isinstance(n.targets[0], ast.Name) \
                    and n.targets[0].id not in loaded:
                for x in ast.walk(n.value):
                    dead_reads.add(id(x))
        for n in ast.walk(fn):
            if isinstance(n, ast.Attribute) and isinstance(n.ctx, ast.Load) and id(n) not in dead_reads:
                for owner in self._type(n.value, env):
                    if owner in self.NC and n.attr in self.NC[owner].fields:
                        self.reads.setdefault((owner, n.attr), []).append((name, n.lineno))
            if isinstance(n, ast.Call) and isinstance(n.func, ast.Name) and n.func.id == "getattr" and len(n.args) >= 2 \
                    and isinstance(n.args[1], ast.Constant):
                for owner in self._type(n.args[0], env):
                    if owner in self.NC and str(n.args[1].value) in self.NC[owner].fields:
                        self.reads.setdefault((owner, str(n.args[1].value)), []).append((name, n.lineno))

    def receiver_types(self, method: str, e: ast.AST) -> Set[str]:
        return self._type(e, self.envs.get(method, {}))

    def has(self, cls: str, fld: str) -> bool:
        return (cls, fld) in self.reads
