"""E7 - AST-node × visitor matrix.

From vtlengine/AST/__init__.py: every node class, its fields through inheritance, and which fields can hold nodes.
From a visitor class: for each node class the `visit_<Node>` method found through the visitor's MRO (the repo's dispatch
is `"visit_" + type(node).__name__`, so subclasses of a node class do NOT inherit their parent's handler), and per method
the set of `node.<field>` reads - including reads in helper methods the node is passed to (call graph, depth-bounded).
"""
from __future__ import annotations

import ast
from dataclasses import dataclass, field
from typing import Dict, List, Optional, Set, Tuple

from sa.core import AnalysisError, ClassInfo, FuncInfo, Program, src, walk_no_nested

ASTMOD = "vtlengine.AST"
POSITIONAL = {"line_start", "column_start", "line_stop", "column_stop"}


@dataclass
class NodeClass:
    name: str
    cls: ClassInfo
    fields: Dict[str, str] = field(default_factory=dict)  # name -> annotation text (own + inherited)
    node_fields: Set[str] = field(default_factory=set)  # fields that can hold AST nodes (or lists of them)
    enum_fields: Dict[str, str] = field(default_factory=dict)  # field -> Enum class name


def node_classes(P: Program) -> Dict[str, NodeClass]:
    m = P.module(ASTMOD)
    base = P.cls(f"{ASTMOD}.AST")
    classes = {c.name: c for c in [base] + P.subclasses(base.qualname) if c.module.name == ASTMOD}
    enums = {c.name for c in m.classes.values() if any(b.endswith("Enum") for b in c.bases)}
    out: Dict[str, NodeClass] = {}
    for name, c in classes.items():
        nc = NodeClass(name, c)
        for k in reversed(P.mro(c)):
            for st in k.node.body:
                if isinstance(st, ast.AnnAssign) and isinstance(st.target, ast.Name):
                    nc.fields[st.target.id] = src(st.annotation)
        for f, ann in nc.fields.items():
            if f in POSITIONAL:
                continue
            toks = set(__import__("re").findall(r"[A-Za-z_]\w*", ann))
            if toks & (set(classes) | {"AST"}):
                nc.node_fields.add(f)
            en = toks & enums
            if en:
                nc.enum_fields[f] = sorted(en)[0]
        out[name] = nc
    if len(out) < 40:
        raise AnalysisError(f"only {len(out)} AST node classes found (anchor changed)")
    return out


def enum_members(P: Program, enum_name: str) -> Dict[str, str]:
    c = P.cls(f"{ASTMOD}.{enum_name}")
    out = {}
    for st in c.node.body:
        if isinstance(st, ast.Assign) and isinstance(st.targets[0], ast.Name):
            out[st.targets[0].id] = src(st.value)
    return out


def visitor_method(P: Program, visitor: ClassInfo, node_name: str, op_suffix: Optional[str] = None) -> Optional[FuncInfo]:
    name = f"visit_{node_name}" + (f"_{op_suffix}" if op_suffix else "")
    return P.lookup_method(visitor, name)


def field_reads(P: Program, f: FuncInfo, param: str, depth: int = 3, _seen: Optional[Set[Tuple[str, str]]] = None) -> Dict[str, List[int]]:
    """Fields read as `<param>.<field>` in f, plus (transitively) in in-repo callees that receive `<param>` itself
    as an argument (the corresponding parameter is followed).  Returns field -> [line numbers]."""
    _seen = _seen if _seen is not None else set()
    key = (f.qualname, param)
    if key in _seen or depth < 0:
        return {}
    _seen.add(key)
    out: Dict[str, List[int]] = {}
    aliases = {param}
    # simple aliases: x = node
    changed = True
    while changed:
        changed = False
        for n in ast.walk(f.node):
            if isinstance(n, ast.Assign) and isinstance(n.value, ast.Name) and n.value.id in aliases:
                for t in n.targets:
                    if isinstance(t, ast.Name) and t.id not in aliases:
                        aliases.add(t.id)
                        changed = True
    for n in ast.walk(f.node):
        if isinstance(n, ast.Attribute) and isinstance(n.value, ast.Name) and n.value.id in aliases:
            out.setdefault(n.attr, []).append(n.lineno)
        if isinstance(n, ast.Call) and isinstance(n.func, ast.Name) and n.func.id in ("getattr", "hasattr") and len(n.args) >= 2 \
                and isinstance(n.args[0], ast.Name) and n.args[0].id in aliases and isinstance(n.args[1], ast.Constant):
            out.setdefault(str(n.args[1].value), []).append(n.lineno)
        if isinstance(n, ast.Call):
            passed = [(i, a) for i, a in enumerate(n.args) if isinstance(a, ast.Name) and a.id in aliases]
            passed_kw = [(k.arg, k.value) for k in n.keywords if isinstance(k.value, ast.Name) and k.value.id in aliases and k.arg]
            if not passed and not passed_kw:
                continue
            if isinstance(n.func, ast.Attribute) and n.func.attr == "visit" and isinstance(n.func.value, ast.Name) and n.func.value.id == "self":
                continue  # re-dispatch on the same node is handled by the caller of this function
            for tq in P.resolve_call(f, n)[:8]:
                g = P.functions.get(tq)
                if g is None:
                    continue
                params = [p for p in g.params if p not in ("self", "cls")]
                for i, _a in passed:
                    if i < len(params):
                        for k2, v2 in field_reads(P, g, params[i], depth - 1, _seen).items():
                            out.setdefault(k2, []).extend(v2)
                for kname, _a in passed_kw:
                    if kname in g.params:
                        for k2, v2 in field_reads(P, g, kname, depth - 1, _seen).items():
                            out.setdefault(k2, []).extend(v2)
    return out


def visited_fields(P: Program, f: FuncInfo, param: str) -> Set[str]:
    """Fields of `param` whose value (or elements of whose value) are passed to self.visit / a visit_* method in f."""
    out: Set[str] = set()
    # loop variables bound to elements of node.<field>
    elem_of: Dict[str, str] = {}
    for n in ast.walk(f.node):
        if isinstance(n, (ast.For, ast.comprehension)):
            it = n.iter
            fld = None
            for x in ast.walk(it):
                if isinstance(x, ast.Attribute) and isinstance(x.value, ast.Name) and x.value.id == param:
                    fld = x.attr
            if fld:
                for t in ast.walk(n.target):
                    if isinstance(t, ast.Name):
                        elem_of[t.id] = fld
        if isinstance(n, ast.Assign) and len(n.targets) == 1 and isinstance(n.targets[0], ast.Name):
            for x in ast.walk(n.value):
                if isinstance(x, ast.Attribute) and isinstance(x.value, ast.Name) and x.value.id == param:
                    elem_of.setdefault(n.targets[0].id, x.attr)
    for n in ast.walk(f.node):
        if isinstance(n, ast.Call) and isinstance(n.func, ast.Attribute) and (n.func.attr == "visit" or n.func.attr.startswith("visit_")):
            for a in list(n.args) + [k.value for k in n.keywords]:
                for x in ast.walk(a):
                    if isinstance(x, ast.Attribute) and isinstance(x.value, ast.Name) and x.value.id == param:
                        out.add(x.attr)
                    if isinstance(x, ast.Name) and x.id in elem_of:
                        out.add(elem_of[x.id])
    return out
