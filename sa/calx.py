"""Calendar oracle shared by the time checks: the VTL regular periods (A, S, Q, M, W, D) of the Gregorian / ISO-8601 calendar,
computed with the standard library - the definition the repository's SQL macros and Python helpers are compared against."""
from __future__ import annotations

import calendar
import datetime as dt
import re
from typing import List, Optional, Tuple

Period = Tuple[int, str, int]


def period_of_date(d: dt.date, ind: str) -> Period:
    if ind == "A":
        return (d.year, "A", 1)
    if ind == "S":
        return (d.year, "S", 1 if d.month <= 6 else 2)
    if ind == "Q":
        return (d.year, "Q", (d.month - 1) // 3 + 1)
    if ind == "M":
        return (d.year, "M", d.month)
    if ind == "W":
        iy, iw, _ = d.isocalendar()
        return (iy, "W", iw)
    if ind == "D":
        return (d.year, "D", d.timetuple().tm_yday)
    raise ValueError(ind)


def parse_period(s: str):
    """(year, indicator, number) of a period written in any of the engine's spellings (2020A, 2020, 2020-Q1, 2020Q1, 2020-M03,
    2020-W05, 2020-D065); anything else -> ("malformed", text)"""
    m = re.fullmatch(r"(\d{4})-?([ASQMWD])?-?(\d{1,3})?", str(s).strip())
    if not m or (m.group(2) is None and m.group(3) is not None):
        return ("malformed", str(s))
    ind = m.group(2) or "A"
    return (int(m.group(1)), ind, int(m.group(3)) if m.group(3) else 1)


def new_year_days(years=(2019, 2020, 2021, 2022, 2024, 2026)) -> List[dt.date]:
    """every day from 24 December to 8 January around the given years (ISO-week / ISO-year boundary), month bounds, leap day"""
    out = set()
    for y in years:
        for k in range(-8, 9):
            out.add(dt.date(y, 1, 1) + dt.timedelta(days=k))
        for mth in range(1, 13):
            out.add(dt.date(y, mth, 1))
            out.add(dt.date(y, mth, calendar.monthrange(y, mth)[1]))
        out.add(dt.date(y, 6, 15))
    out.add(dt.date(2020, 2, 29))
    out.add(dt.date(2024, 2, 29))
    return sorted(out)
