"""Finite common model of dataset STRUCTURES for the two implementations that compute them: the interpreter's semantic
validation (Operators.*) and the SQL transpiler's StructureVisitor, which re-derives the structure of every INTERMEDIATE
result.  Both are evaluated by the E6 evaluator (sa/e6.py) on small abstract operand structures (names and roles only);
no vtlengine object exists in the checker's process - datasets and components are the mock classes below, and `Role.X`,
set/dict operations, comprehensions are evaluated from the source text.

Shapes: identifier sets in every inclusion relation the interpreter admits, one or two measures, optional viral attribute.
"""
from __future__ import annotations

import ast
from typing import Any, Callable, Dict, List, Optional, Tuple

from sa.core import AnalysisError, FuncInfo, Program
from sa.e6 import ClassVal, Interp, Raised, Unmodelled

SV = "vtlengine.duckdb_transpiler.Transpiler.structure_visitor.StructureVisitor"


class MComp:
    def __init__(self, name: str, role: str, data_type: Any = None, nullable: bool = True) -> None:
        self.name, self.role, self.data_type, self.nullable = name, role, data_type, nullable

    def __repr__(self) -> str:
        return f"{self.name}:{self.role}"


class MDS:
    def __init__(self, name: str, components: Dict[str, MComp], roles: Dict[str, str]) -> None:
        self.name, self.components, self.data, self._r = name, components, None, roles

    def _by(self, role: str) -> List[MComp]:
        return [c for c in self.components.values() if c.role == self._r[role]]

    def get_identifiers_names(self) -> List[str]:
        return [c.name for c in self._by("IDENTIFIER")]

    def get_measures_names(self) -> List[str]:
        return [c.name for c in self._by("MEASURE")]

    def get_identifiers(self) -> List[MComp]:
        return self._by("IDENTIFIER")

    def get_measures(self) -> List[MComp]:
        return self._by("MEASURE")

    def get_attributes(self) -> List[MComp]:
        return self._by("ATTRIBUTE")

    def get_viral_attributes(self) -> List[MComp]:
        return self._by("VIRAL_ATTRIBUTE")

    def get_components_names(self) -> List[str]:
        return list(self.components)

    def get_component(self, name: str) -> MComp:
        return self.components[name]

    def add_component(self, c: "MComp") -> None:
        self.components[c.name] = c

    def delete_component(self, name: str) -> None:
        self.components.pop(name, None)

    def get_viral_attributes_names(self) -> List[str]:
        return [c.name for c in self._by("VIRAL_ATTRIBUTE")]

    def get_attributes_names(self) -> List[str]:
        return [c.name for c in self._by("ATTRIBUTE")]

    def summary(self) -> Tuple[Tuple[str, ...], Tuple[str, ...]]:
        return tuple(sorted(self.get_identifiers_names())), tuple(sorted(self.get_measures_names()))


class Model:
    def __init__(self, P: Program) -> None:
        self.P = P
        probe = P.func(f"{SV}._build_ds_ds_binop_structure")
        it = Interp(P)
        self.roles = {k: it.eval(ast.parse(f"Role.{k}", mode="eval").body, {}, probe) for k in ("IDENTIFIER", "MEASURE", "ATTRIBUTE", "VIRAL_ATTRIBUTE")}
        self.number = ClassVal("vtlengine.DataTypes.Number")

    def ds(self, name: str, ids: List[str], measures: List[str], virals: List[str] = (), attrs: List[str] = ()) -> MDS:
        c: Dict[str, MComp] = {i: MComp(i, self.roles["IDENTIFIER"], self.number, False) for i in ids}
        c.update({m: MComp(m, self.roles["MEASURE"], self.number) for m in measures})
        c.update({a: MComp(a, self.roles["ATTRIBUTE"], self.number) for a in attrs})
        c.update({v: MComp(v, self.roles["VIRAL_ATTRIBUTE"], self.number) for v in virals})
        return MDS(name, c, self.roles)

    def mk_dataset(self, **kw: Any) -> MDS:
        return MDS(kw.get("name", "_"), dict(kw["components"]), self.roles)

    # -- the two implementations of DS op DS ---------------------------------------------------------------------
    def interpreter_binary(self, op_cls: str, left: MDS, right: MDS, full: bool = False) -> Tuple[str, Any]:
        """full=True: the operator's own type_validation and apply_return_type_dataset are evaluated too (types, renaming of a
        mono-measure, nullability of the result measure)"""
        f = self.P.func("vtlengine.Operators.Binary.dataset_validation")
        ext: Dict[str, Callable[..., Any]] = {
            "VirtualCounter._new_ds_name": lambda: "__VDS__",
            "copy": lambda x: MComp(x.name, x.role, x.data_type, x.nullable) if isinstance(x, MComp) else x,
            "Dataset": self.mk_dataset,
        }
        if full:
            ext["Component"] = lambda **kw: MComp(kw["name"], kw["role"], kw.get("data_type"), kw.get("nullable", True))
            ext["isinstance"] = _isinstance
        else:
            ext["cls.type_validation"] = lambda a, b: a
            ext["cls.apply_return_type_dataset"] = lambda *a: None
        it = Interp(self.P, externals=ext)
        try:
            res = it.call(f, {"left_operand": left, "right_operand": right}, bound_cls=ClassVal(op_cls))
        except Raised as r:
            return "raise", getattr(r.exc, "code", None)
        return "ok", res

    def visitor_binary(self, left: MDS, right: MDS) -> Tuple[str, Any]:
        f = self.P.func(f"{SV}._build_ds_ds_binop_structure")

        class N:
            pass
        n = N()
        n.left, n.right = "L", "R"  # type: ignore[attr-defined]
        it = Interp(self.P, externals={"self._get_dataset_structure": lambda x: {"L": left, "R": right}[x], "Dataset": self.mk_dataset})
        try:
            res = it.call(f, {"self": object(), "node": n})
        except Raised as r:
            return "raise", getattr(r.exc, "code", None)
        return "ok", res


BINARY_SHAPES: List[Tuple[str, List[str], List[str], List[str], List[str]]] = [
    # label, left ids, right ids, left measures, right measures
    ("equal-ids", ["A"], ["A"], ["M"], ["M"]),
    ("measures-declared-in-another-order", ["A"], ["A"], ["M", "N"], ["N", "M"]),
    ("equal-ids-2", ["A", "B"], ["A", "B"], ["M", "N"], ["M", "N"]),
    ("left-superset", ["A", "B"], ["A"], ["M"], ["M"]),
    ("right-superset", ["A"], ["A", "B"], ["M"], ["M"]),
    ("left-superset-2m", ["A", "B", "C"], ["B"], ["M", "N"], ["M", "N"]),
    ("right-superset-2m", ["B"], ["A", "B", "C"], ["M", "N"], ["M", "N"]),
]


# ---------------------------------------------------------------------------------------------------------------
# clause operators: StructureVisitor builder vs Operators.Clause validator
class MNode:
    """mock AST node: `_cls` names the vtlengine.AST class it stands for (for isinstance tests evaluated from source)"""
    def __init__(self, cls: str, **kw: Any) -> None:
        self._cls = cls
        self.__dict__.update(kw)


class MSelf:
    """mock StructureVisitor instance: methods not overridden by the check are the repository's own (dispatched by E6)"""
    _e6_class = SV

    def __init__(self) -> None:
        self._udo_params = None
        self._join_alias_map: Dict[str, str] = {}
        self.available_tables: Dict[str, Any] = {}
        self.output_datasets: Dict[str, Any] = {}
        self.current_assignment = ""


def _isinstance(obj: Any, type_names: List[str]) -> bool:
    c = getattr(obj, "_cls", None)
    names = {t.split(".")[-1] for t in type_names}
    if isinstance(obj, MDS):
        return "Dataset" in names
    if isinstance(obj, MComp):
        return bool(names & {"Component", "DataComponent"})
    if isinstance(obj, str):
        return "str" in names
    return c in names


CLAUSE_BUILDERS = {"calc": "_build_calc_structure", "keep": "_build_keep_structure", "drop": "_build_drop_structure", "rename": "_build_rename_structure", "sub": "_build_subspace_structure"}
CLAUSE_VALIDATORS = {"calc": "vtlengine.Operators.Clause.Calc", "keep": "vtlengine.Operators.Clause.Keep", "drop": "vtlengine.Operators.Clause.Drop", "rename": "vtlengine.Operators.Clause.Rename", "sub": "vtlengine.Operators.Clause.Sub"}


def _calc_children(names: List[str], role_token: Optional[str]) -> List[Any]:
    out: List[Any] = []
    for n in names:
        a = MNode("Assignment", left=MNode("VarID", value=n), op=":=", right=MNode("Constant", value=1))
        # the AST constructor always wraps a calc item in UnaryOp(op=<role token>) (explicit role or implicit "measure")
        out.append(MNode("UnaryOp", op=role_token, operand=a) if role_token is not None else a)
    return out


def clause_visitor(M: Model, op: str, ds: MDS, names: List[str], renames: Optional[List[Tuple[str, str]]] = None, role_token: Optional[str] = None) -> Tuple[str, Any]:
    f = M.P.func(f"{SV}.{CLAUSE_BUILDERS[op]}")
    if op == "rename":
        children = [MNode("RenameNode", old_name=a, new_name=b) for a, b in renames or []]
    elif op == "sub":
        children = [MNode("BinOp", left=MNode("VarID", value=n), op="=", right=MNode("Constant", value=1)) for n in names]
    elif op == "calc":
        children = _calc_children(names, role_token)
    else:
        children = [MNode("VarID", value=n) for n in names]
    node = MNode("RegularAggregation", op=op, children=children, dataset="SRC")
    me = MSelf()
    ext: Dict[str, Callable[..., Any]] = {
        "self._get_dataset_structure": lambda x: ds,
        "Dataset": M.mk_dataset,
        "isinstance": _isinstance,
        "self._resolve_udo_name": lambda x: x,
        "self._resolve_name": lambda x: getattr(x, "value", x),
        "self._resolve_membership_name": lambda x: x,
        "self._make_comp": lambda name, dt=None, role=None, nullable=True, **kw: MComp(name, role if role is not None else M.roles["MEASURE"], dt, nullable),
        "self._get_output_dataset": lambda: None,
    }
    it = Interp(M.P, externals=ext)
    try:
        res = it.call(f, {"self": me, "node": node})
    except Raised as r:
        return "raise", getattr(r.exc, "code", None)
    return "ok", res


def clause_interpreter(M: Model, op: str, ds: MDS, names: List[str], renames: Optional[List[Tuple[str, str]]] = None, role: str = "MEASURE") -> Tuple[str, Any]:
    f = M.P.func(f"{CLAUSE_VALIDATORS[op]}.validate")
    if op == "rename":
        operands: List[Any] = [MNode("RenameNode", old_name=a, new_name=b) for a, b in renames or []]
    elif op == "sub":
        operands = [MComp(n, ds.components[n].role if n in ds.components else M.roles["MEASURE"]) for n in names]
    elif op == "calc":
        operands = [MComp(n, M.roles[role], M.number, nullable=role != "IDENTIFIER") for n in names]
    else:
        operands = list(names)
    ext: Dict[str, Callable[..., Any]] = {
        "VirtualCounter._new_ds_name": lambda: "__VDS__",
        "Dataset": M.mk_dataset,
        "Component": lambda **kw: MComp(kw["name"], kw["role"], kw.get("data_type"), kw.get("nullable", True)),
        "isinstance": _isinstance,
        "re.match": lambda pat, s_: None,
        "copy": lambda x: MComp(x.name, x.role, x.data_type, x.nullable) if isinstance(x, MComp) else x,
    }
    it = Interp(M.P, externals=ext)
    try:
        res = it.call(f, {"operands": operands, "dataset": ds}, bound_cls=ClassVal(CLAUSE_VALIDATORS[op]))
    except Raised as r:
        return "raise", getattr(r.exc, "code", None)
    return "ok", res


def comp_summary(d: MDS) -> Tuple[Tuple[str, str], ...]:
    return tuple(sorted((c_.name, c_.role) for c_ in d.components.values()))


# ---------------------------------------------------------------------------------------------------------------
# the SQL side of the clause handlers: which columns does the generated SELECT deliver?
class MBuilder:
    """mock of SQLBuilder that records what the handler asks for (the handler code is the repository's, evaluated by E6)"""
    def __init__(self) -> None:
        self.cols: List[str] = []
        self.table = ""
        self.wheres: List[str] = []
        self.star = False
        self.sub: Any = None
        self.joins: List[Dict[str, Any]] = []
        self.alias = ""

    def select(self, *cols: str) -> "MBuilder":
        self.cols.extend(cols)
        return self

    def select_all(self) -> "MBuilder":
        self.star = True
        return self

    def from_table(self, table: str, alias: str = "") -> "MBuilder":
        self.table = table
        self.alias = alias
        return self

    def from_subquery(self, sub: Any, alias: str = "t") -> "MBuilder":
        self.sub = sub  # an MBuilder (build() returns the builder itself) or SQL text
        self.table = "(subquery)"
        return self

    def join(self, table: str, alias: str, on: str = "", using: Any = None, join_type: str = "INNER") -> "MBuilder":
        self.joins.append({"table": table, "alias": alias, "on": on, "using": using, "type": join_type})
        return self

    def cross_join(self, table: str, alias: str) -> "MBuilder":
        self.joins.append({"table": table, "alias": alias, "on": None, "using": None, "type": "CROSS"})
        return self

    def where(self, cond: str) -> "MBuilder":
        self.wheres.append(cond)
        return self

    def build(self) -> "MBuilder":
        return self


def sql_columns(b: MBuilder, source_cols: List[str]) -> List[str]:
    """column names the recorded SELECT delivers, given the source's columns"""
    import re as _re
    out: List[str] = []
    if isinstance(b.sub, MBuilder):
        source_cols = sql_columns(b.sub, source_cols)
    elif b.sub is not None:
        raise Unmodelled(f"SELECT over a textual subquery ({str(b.sub)[:40]}): columns unknown")
    if b.star and not b.cols:
        return list(source_cols)
    for c in b.cols:
        if c.strip() == "*" or _re.fullmatch(r'\* REPLACE \((.*)\)', c.strip(), _re.S):
            out.extend(source_cols)
            continue
        m = _re.fullmatch(r'\* EXCLUDE \((.*)\)', c.strip())
        if m:
            ex = {x.strip().strip('"') for x in m.group(1).split(",")}
            out.extend(x for x in source_cols if x not in ex)
            continue
        m = _re.search(r'\bAS\s+"([^"]+)"\s*$', c)
        out.append(m.group(1) if m else c.strip().strip('"'))
    return out


SQL_HANDLERS = {"calc": "visit_RegularAggregation_calc", "keep": "visit_RegularAggregation_keep", "drop": "visit_RegularAggregation_drop", "rename": "visit_RegularAggregation_rename",
                "sub": "visit_RegularAggregation_sub", "filter": "visit_RegularAggregation_filter"}
TRQ = "vtlengine.duckdb_transpiler.Transpiler.SQLTranspiler"


class MTranspiler(MSelf):
    _e6_class = TRQ

    def __init__(self) -> None:
        super().__init__()
        self._consumed_join_aliases: set = set()
        self._in_clause = False
        self._current_dataset = None
        self._column_prefix = None


def clause_sql(M: Model, op: str, ds: MDS, names: List[str], renames: Optional[List[Tuple[str, str]]] = None, role_token: Optional[str] = None) -> Tuple[str, Any]:
    f = M.P.func(f"{TRQ}.{SQL_HANDLERS[op]}")
    if op == "rename":
        children: List[Any] = [MNode("RenameNode", old_name=a, new_name=b) for a, b in renames or []]
    elif op == "sub":
        children = [MNode("BinOp", left=MNode("VarID", value=n), op="=", right=MNode("Constant", value=1)) for n in names]
    elif op == "filter":
        children = [MNode("VarID", value="COND")]
    elif op == "calc":
        children = _calc_children(names, role_token)
    else:
        children = [MNode("VarID", value=n) for n in names]
    node = MNode("RegularAggregation", op=op, children=children, dataset="SRC")
    me = MTranspiler()
    ext: Dict[str, Callable[..., Any]] = {
        "self._resolve_clause_dataset": lambda n: (ds, '"SRC"'),
        "self._get_dataset_sql": lambda n: '"SRC"',
        "self._get_dataset_structure": lambda n: ds,
        "SQLBuilder": MBuilder,
        "quote_name": lambda n: f'"{n}"',
        "isinstance": _isinstance,
        "self._resolve_udo_name": lambda x: x,
        "self._resolve_name": lambda x: getattr(x, "value", x),
        "self._resolve_membership_name": lambda x: x,
        "self._get_node_value": lambda x: getattr(x, "value", x),
        "self.visit": lambda x: f"⟦{getattr(x, 'value', '?')}⟧",
        "self._clause_scope": lambda *a, **k: None,
        "_contains_analytic": lambda x: False,
        "self._as_subquery": lambda x: x,
    }
    it = Interp(M.P, externals=ext)
    try:
        res = it.call(f, {"self": me, "node": node})
    except Raised as r:
        return "raise", getattr(r.exc, "code", None)
    return "ok", res


def expression_scopes(b: MBuilder) -> List[Tuple[str, List[str]]]:
    """(select item containing a translated expression ⟦…⟧, names already RE-DEFINED by an inner level of the same generated
    query at the point where that item is evaluated).  VTL evaluates every expression of a clause on the clause's INPUT
    dataset; an expression placed above a level that replaced a column reads the new value instead."""
    import re as _re
    levels: List[MBuilder] = []
    cur: Any = b
    while isinstance(cur, MBuilder):
        levels.append(cur)
        cur = cur.sub
    levels.reverse()  # innermost first
    redefined: List[str] = []
    out: List[Tuple[str, List[str]]] = []
    for lv in levels:
        here: List[str] = []
        for c in lv.cols:
            m = _re.fullmatch(r'\* REPLACE \((.*)\)', c.strip(), _re.S)
            items = [x.strip() for x in _split_top(m.group(1))] if m else [c]
            for it in items:
                if "⟦" in it:
                    out.append((it, list(redefined)))
                    mm = _re.search(r'\bAS\s+"([^"]+)"\s*$', it)
                    if mm:
                        here.append(mm.group(1))
        redefined.extend(here)
    return out


def _split_top(text: str) -> List[str]:
    out, depth, cur = [], 0, ""
    for ch in text:
        if ch in "(⟦":
            depth += 1
        elif ch in ")⟧":
            depth -= 1
        if ch == "," and depth == 0:
            out.append(cur)
            cur = ""
        else:
            cur += ch
    if cur.strip():
        out.append(cur)
    return out


# ---------------------------------------------------------------------------------------------------------------
# joins: SQLTranspiler.visit_JoinOp evaluated on abstract operand structures
def join_sql(M: Model, op: str, operands: List[Tuple[str, MDS, Optional[str]]], using: Optional[List[str]] = None,
             nvl: Optional[Dict[str, str]] = None) -> Tuple[str, Any]:
    """operands: (dataset name, structure, alias or None).  Returns ("ok", MBuilder) with .cols / .joins recorded."""
    f = M.P.func(f"{TRQ}.visit_JoinOp")
    by_name = {n: d for n, d, _a in operands}
    clauses: List[Any] = []
    for n, _d, a in operands:
        v = MNode("VarID", value=n)
        clauses.append(MNode("BinOp", left=v, op="as", right=MNode("Identifier", value=a)) if a else v)
    node = MNode("JoinOp", op=op, clauses=clauses, using=using, nvl=None, isLast=True)
    me = MTranspiler()

    def counter(it: Any) -> Dict[Any, int]:
        out: Dict[Any, int] = {}
        for x in it:
            out[x] = out.get(x, 0) + 1
        return out
    ext: Dict[str, Callable[..., Any]] = {
        "self._get_dataset_structure": lambda n: by_name[n.value],
        "self._get_dataset_sql": lambda n: f'"{n.value}"',
        "self._get_node_value": lambda x: getattr(x, "value", x),
        "self._resolve_join_nvl_defaults": lambda *a: dict(nvl or {}),
        "self._build_join_viral_cols": lambda *a: [],
        "merged_viral_attribute_names": lambda *a: set(),
        "get_current_registry": lambda: None,
        "quote_name": lambda n: f'"{n}"',
        "isinstance": _isinstance,
        "SQLBuilder": MBuilder,
        "Counter": counter,
    }
    it = Interp(M.P, externals=ext, max_steps=200000)
    try:
        res = it.call(f, {"self": me, "node": node})
    except Raised as r:
        return "raise", getattr(r.exc, "code", None) or getattr(r.exc, "kind", None)
    return "ok", res


# ---------------------------------------------------------------------------------------------------------------
# aggregation, membership, check: interpreter validator vs StructureVisitor builder (and SQL SELECT list where evaluable)
def _copy(x: Any) -> Any:
    return MComp(x.name, x.role, x.data_type, x.nullable) if isinstance(x, MComp) else x


def _component(**kw: Any) -> MComp:
    return MComp(kw["name"], kw["role"], kw.get("data_type"), kw.get("nullable", True))


def agg_interpreter(M: Model, cls: str, ds: MDS, gop: Optional[str], gcols: Optional[List[str]]) -> Tuple[str, Any]:
    f = M.P.func("vtlengine.Operators.Aggregation.Aggregation.validate")
    ext: Dict[str, Callable[..., Any]] = {"Dataset": M.mk_dataset, "isinstance": _isinstance, "Component": _component, "copy": _copy,
                                          "unary_implicit_promotion": lambda a, b=None, c=None: a}
    it = Interp(M.P, externals=ext, max_steps=400000)
    try:
        r = it.call(f, {"operand": ds, "group_op": gop, "grouping_columns": gcols}, bound_cls=ClassVal(f"vtlengine.Operators.Aggregation.{cls}"))
    except Raised as e:
        return "raise", getattr(e.exc, "code", None)
    return "ok", r


def agg_visitor(M: Model, op: str, ds: MDS, gop: Optional[str], gcols: Optional[List[str]]) -> Tuple[str, Any]:
    f = M.P.func(f"{SV}._build_aggregation_structure")
    node = MNode("Aggregation", op=op, operand="SRC", grouping_op=gop, grouping=[MNode("VarID", value=g) for g in gcols] if gcols is not None else None, having_clause=None)
    ext: Dict[str, Callable[..., Any]] = {"self._get_dataset_structure": lambda x: ds, "Dataset": M.mk_dataset, "isinstance": _isinstance, "self._resolve_udo_name": lambda x: x,
                                          "self._make_comp": lambda name, dt=None, role=None, nullable=True, **kw: MComp(name, role if role is not None else M.roles["MEASURE"], dt, nullable)}
    it = Interp(M.P, externals=ext, max_steps=400000)
    try:
        r = it.call(f, {"self": MSelf(), "node": node})
    except Raised as e:
        return "raise", getattr(e.exc, "code", None)
    return "ok", r


def membership_interpreter(M: Model, ds: MDS, comp: str) -> Tuple[str, Any]:
    f = M.P.func("vtlengine.Operators.General.Membership.validate")
    ext: Dict[str, Callable[..., Any]] = {"VirtualCounter._new_ds_name": lambda: "__VDS__", "Dataset": M.mk_dataset, "Component": _component, "isinstance": _isinstance,
                                          "Scalar": lambda **kw: ("scalar", kw.get("data_type"))}
    it = Interp(M.P, externals=ext)
    try:
        r = it.call(f, {"left_operand": ds, "right_operand": comp}, bound_cls=ClassVal("vtlengine.Operators.General.Membership"))
    except Raised as e:
        return "raise", getattr(e.exc, "code", None)
    return "ok", r


def membership_visitor(M: Model, ds: MDS, comp: str) -> Tuple[str, Any]:
    f = M.P.func(f"{SV}._build_membership_structure")
    node = MNode("BinOp", left="SRC", op="#", right=MNode("Identifier", value=comp))
    ext: Dict[str, Callable[..., Any]] = {"self._get_dataset_structure": lambda x: ds, "Dataset": M.mk_dataset, "isinstance": _isinstance, "self._resolve_udo_name": lambda x: x,
                                          "self._resolve_name": lambda x: getattr(x, "value", x),
                                          "self._make_comp": lambda name, dt=None, role=None, nullable=True, **kw: MComp(name, role if role is not None else M.roles["MEASURE"], dt, nullable)}
    it = Interp(M.P, externals=ext)
    try:
        r = it.call(f, {"self": MSelf(), "node": node})
    except Raised as e:
        return "raise", getattr(e.exc, "code", None)
    return "ok", r


def membership_sql(M: Model, ds: MDS, comp: str) -> Tuple[str, Any]:
    f = M.P.func(f"{TRQ}._visit_binop_membership")
    node = MNode("BinOp", left=MNode("VarID", value="SRC"), op="#", right=MNode("Identifier", value=comp))
    ext: Dict[str, Callable[..., Any]] = {"self._get_dataset_structure": lambda x: ds, "self._get_dataset_sql": lambda x: '"SRC"', "self._resolve_udo_name": lambda x: x,
                                          "self._get_node_value": lambda x: getattr(x, "value", x), "quote_name": lambda n: f'"{n}"', "SQLBuilder": MBuilder, "isinstance": _isinstance}
    it = Interp(M.P, externals=ext)
    try:
        r = it.call(f, {"self": MTranspiler(), "node": node})
    except Raised as e:
        return "raise", getattr(e.exc, "code", None)
    return "ok", r


def check_interpreter(M: Model, ds: MDS, imbalance: Optional[MDS] = None) -> Tuple[str, Any]:
    f = M.P.func("vtlengine.Operators.Validation.Check.validate")
    ext: Dict[str, Callable[..., Any]] = {"VirtualCounter._new_ds_name": lambda: "__VDS__", "Dataset": M.mk_dataset, "Component": _component, "isinstance": _isinstance, "copy": _copy}
    it = Interp(M.P, externals=ext)
    try:
        r = it.call(f, {"validation_element": ds, "imbalance_element": imbalance, "error_code": None, "error_level": None, "invalid": False},
                    bound_cls=ClassVal("vtlengine.Operators.Validation.Check"))
    except Raised as e:
        return "raise", getattr(e.exc, "code", None)
    return "ok", r


def check_visitor(M: Model, ds: MDS) -> Tuple[str, Any]:
    f = M.P.func(f"{SV}._build_validation_structure")
    node = MNode("Validation", op="check", validation="SRC", error_code=None, error_level=None, imbalance=None, invalid=False)
    me = MSelf()
    ext: Dict[str, Callable[..., Any]] = {"self._get_dataset_structure": lambda x: ds, "Dataset": M.mk_dataset, "isinstance": _isinstance,
                                          "self._make_comp": lambda name, dt=None, role=None, nullable=True, **kw: MComp(name, role if role is not None else M.roles["MEASURE"], dt, nullable)}
    it = Interp(M.P, externals=ext)
    try:
        r = it.call(f, {"self": me, "node": node})
    except Raised as e:
        return "raise", getattr(e.exc, "code", None)
    return "ok", r


def join_visitor(M: Model, op: str, operands: List[Tuple[str, MDS, Optional[str]]], using: Optional[List[str]] = None) -> Tuple[str, Any]:
    """StructureVisitor._build_join_structure on the same abstract operands as join_sql"""
    f = M.P.func(f"{SV}._build_join_structure")
    by_name = {n: d for n, d, _a in operands}
    clauses: List[Any] = []
    for n, _d, a in operands:
        v = MNode("VarID", value=n)
        clauses.append(MNode("BinOp", left=v, op="as", right=MNode("Identifier", value=a)) if a else v)
    node = MNode("JoinOp", op=op, clauses=clauses, using=using, nvl=None, isLast=True)
    ext: Dict[str, Callable[..., Any]] = {
        "self._get_dataset_structure": lambda n: by_name[n.value], "self._resolve_name": lambda x: getattr(x, "value", x), "self._get_output_dataset": lambda: None,
        "merged_viral_attribute_names": lambda *a: set(), "isinstance": _isinstance, "Dataset": M.mk_dataset,
        "self._make_comp": lambda name, dt=None, role=None, nullable=True, **kw: MComp(name, role if role is not None else M.roles["MEASURE"], dt, nullable),
    }
    it = Interp(M.P, externals=ext, max_steps=200000)
    try:
        res = it.call(f, {"self": MSelf(), "node": node})
    except Raised as r:
        return "raise", getattr(r.exc, "code", None) or getattr(r.exc, "kind", None)
    return "ok", res


# ---------------------------------------------------------------------------------------------------------------
# real repository classes as objects of the evaluator: a dataclass is instantiated from its field defaults and its methods are
# the repository's (E6 dispatches through `_e6_class`)
def instantiate(M: Model, cq: str) -> Any:
    ci = M.P.classes.get(cq)
    if ci is None:
        raise AnalysisError(f"class {cq} not found")
    obj = type("E6_" + cq.split(".")[-1], (), {"_e6_class": cq})()
    for st in ci.node.body:
        if isinstance(st, ast.AnnAssign) and isinstance(st.target, ast.Name):
            v = st.value
            if v is None:
                continue
            if isinstance(v, ast.Constant):
                setattr(obj, st.target.id, v.value)
            elif isinstance(v, ast.Call) and getattr(v.func, "id", "") == "field":
                kw = {k.arg: k.value for k in v.keywords}
                df = kw.get("default_factory")
                if isinstance(df, ast.Name) and df.id in ("list", "dict", "set"):
                    setattr(obj, st.target.id, {"list": list, "dict": dict, "set": set}[df.id]())
                elif "default" in kw and isinstance(kw["default"], ast.Constant):
                    setattr(obj, st.target.id, kw["default"].value)
                else:
                    raise AnalysisError(f"{cq}.{st.target.id}: field default not modelled")
            else:
                raise AnalysisError(f"{cq}.{st.target.id}: default `{ast.unparse(v)}` not modelled")
    return obj


def call_method(M: Model, obj: Any, name: str, *args: Any, **kwargs: Any) -> Any:
    ci = M.P.classes[obj._e6_class]
    mm = M.P.lookup_method(ci, name)
    if mm is None:
        raise AnalysisError(f"{obj._e6_class} has no method {name}")
    return Interp(M.P, externals={"isinstance": _isinstance})._call_method(mm, obj, list(args), dict(kwargs))
