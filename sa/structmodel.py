"""Finite common model of dataset STRUCTURES for the two implementations that compute them: the interpreter's semantic
validation (Operators.*) and the SQL transpiler's StructureVisitor, which re-derives the structure of every INTERMEDIATE
result.  Both are evaluated by the E6 evaluator (sa/e6.py) on small abstract operand structures (names and roles only);
no vtlengine object exists in the checker's process - datasets and components are the mock classes below, and `Role.X`,
set/dict operations, comprehensions are evaluated from the source text.

Shapes: identifier sets in every inclusion relation the interpreter admits, one or two measures, optional viral attribute.
"""
from __future__ import annotations

import ast
from typing import Any, Callable, Dict, List, Optional, Tuple

from sa.core import AnalysisError, FuncInfo, Program
from sa.e6 import ClassVal, Interp, Raised, Unmodelled

SV = "vtlengine.duckdb_transpiler.Transpiler.structure_visitor.StructureVisitor"


class MComp:
    def __init__(self, name: str, role: str, data_type: Any = None, nullable: bool = True) -> None:
        self.name, self.role, self.data_type, self.nullable = name, role, data_type, nullable

    def __repr__(self) -> str:
        return f"{self.name}:{self.role}"


class MDS:
    def __init__(self, name: str, components: Dict[str, MComp], roles: Dict[str, str]) -> None:
        self.name, self.components, self.data, self._r = name, components, None, roles

    def _by(self, role: str) -> List[MComp]:
        return [c for c in self.components.values() if c.role == self._r[role]]

    def get_identifiers_names(self) -> List[str]:
        return [c.name for c in self._by("IDENTIFIER")]

    def get_measures_names(self) -> List[str]:
        return [c.name for c in self._by("MEASURE")]

    def get_identifiers(self) -> List[MComp]:
        return self._by("IDENTIFIER")

    def get_measures(self) -> List[MComp]:
        return self._by("MEASURE")

    def get_attributes(self) -> List[MComp]:
        return self._by("ATTRIBUTE")

    def get_viral_attributes(self) -> List[MComp]:
        return self._by("VIRAL_ATTRIBUTE")

    def get_components_names(self) -> List[str]:
        return list(self.components)

    def get_component(self, name: str) -> MComp:
        return self.components[name]

    def summary(self) -> Tuple[Tuple[str, ...], Tuple[str, ...]]:
        return tuple(sorted(self.get_identifiers_names())), tuple(sorted(self.get_measures_names()))


class Model:
    def __init__(self, P: Program) -> None:
        self.P = P
        probe = P.func(f"{SV}._build_ds_ds_binop_structure")
        it = Interp(P)
        self.roles = {k: it.eval(ast.parse(f"Role.{k}", mode="eval").body, {}, probe) for k in ("IDENTIFIER", "MEASURE", "ATTRIBUTE", "VIRAL_ATTRIBUTE")}
        self.number = ClassVal("vtlengine.DataTypes.Number")

    def ds(self, name: str, ids: List[str], measures: List[str], virals: List[str] = ()) -> MDS:
        c: Dict[str, MComp] = {i: MComp(i, self.roles["IDENTIFIER"], self.number, False) for i in ids}
        c.update({m: MComp(m, self.roles["MEASURE"], self.number) for m in measures})
        c.update({v: MComp(v, self.roles["VIRAL_ATTRIBUTE"], self.number) for v in virals})
        return MDS(name, c, self.roles)

    def mk_dataset(self, **kw: Any) -> MDS:
        return MDS(kw.get("name", "_"), dict(kw["components"]), self.roles)

    # -- the two implementations of DS op DS ---------------------------------------------------------------------
    def interpreter_binary(self, op_cls: str, left: MDS, right: MDS) -> Tuple[str, Any]:
        f = self.P.func("vtlengine.Operators.Binary.dataset_validation")
        ext: Dict[str, Callable[..., Any]] = {
            "VirtualCounter._new_ds_name": lambda: "__VDS__",
            "copy": lambda x: MComp(x.name, x.role, x.data_type, x.nullable) if isinstance(x, MComp) else x,
            "Dataset": self.mk_dataset,
            "cls.type_validation": lambda a, b: a,
            "cls.apply_return_type_dataset": lambda *a: None,
        }
        it = Interp(self.P, externals=ext)
        try:
            res = it.call(f, {"left_operand": left, "right_operand": right}, bound_cls=ClassVal(op_cls))
        except Raised as r:
            return "raise", getattr(r.exc, "code", None)
        return "ok", res

    def visitor_binary(self, left: MDS, right: MDS) -> Tuple[str, Any]:
        f = self.P.func(f"{SV}._build_ds_ds_binop_structure")

        class N:
            pass
        n = N()
        n.left, n.right = "L", "R"  # type: ignore[attr-defined]
        it = Interp(self.P, externals={"self._get_dataset_structure": lambda x: {"L": left, "R": right}[x], "Dataset": self.mk_dataset})
        try:
            res = it.call(f, {"self": object(), "node": n})
        except Raised as r:
            return "raise", getattr(r.exc, "code", None)
        return "ok", res


BINARY_SHAPES: List[Tuple[str, List[str], List[str], List[str], List[str]]] = [
    # label, left ids, right ids, left measures, right measures
    ("equal-ids", ["A"], ["A"], ["M"], ["M"]),
    ("equal-ids-2", ["A", "B"], ["A", "B"], ["M", "N"], ["M", "N"]),
    ("left-superset", ["A", "B"], ["A"], ["M"], ["M"]),
    ("right-superset", ["A"], ["A", "B"], ["M"], ["M"]),
    ("left-superset-2m", ["A", "B", "C"], ["B"], ["M", "N"], ["M", "N"]),
    ("right-superset-2m", ["B"], ["A", "B", "C"], ["M", "N"], ["M", "N"]),
]
