"""E4 - regular-language engine: Python/RE2-style regex → NFA (via re._parser) over a printable-ASCII alphabet, with
on-the-fly product exploration for emptiness / inclusion / difference and shortest witnesses.

Supported constructs (exactly what the repo's patterns use; anything else raises Unsupported → ANALYSIS-ERROR):
literals, classes (ranges, \\d \\s \\w, negation), '.', groups (capturing / non-capturing), alternation,
? * + {m,n}, and ^ / $ at the start / end of an alternative.

Matching modes:  fullmatch (Python re.fullmatch; DuckDB regexp_full_match),
                 match (Python re.match: anchored at the start only),
                 search (Python re.search; DuckDB regexp_matches: unanchored unless ^/$ are written).
"""
from __future__ import annotations

import re
import re._parser as sre  # type: ignore[import]
from dataclasses import dataclass, field
from typing import Dict, FrozenSet, Iterable, List, Optional, Sequence, Set, Tuple

from sa.core import AnalysisError

ALPHABET: List[str] = [chr(c) for c in range(0x20, 0x7F)]
ALPHASET = frozenset(ALPHABET)
PREFERRED = "2019345678-/:TZ MWQSDAPtz.+" + "".join(ALPHABET)
ORDER: List[str] = []
for _c in PREFERRED:
    if _c in ALPHASET and _c not in ORDER:
        ORDER.append(_c)


class Unsupported(AnalysisError):
    pass


@dataclass
class NFA:
    start: int
    accept: int
    eps: Dict[int, Set[int]] = field(default_factory=dict)
    trans: Dict[int, List[Tuple[FrozenSet[str], int]]] = field(default_factory=dict)
    n: int = 0

    def closure(self, states: Iterable[int]) -> FrozenSet[int]:
        out = set(states)
        stack = list(out)
        while stack:
            s = stack.pop()
            for t in self.eps.get(s, ()):
                if t not in out:
                    out.add(t)
                    stack.append(t)
        return frozenset(out)

    def step(self, states: FrozenSet[int], ch: str) -> FrozenSet[int]:
        nxt: Set[int] = set()
        for s in states:
            for cs, t in self.trans.get(s, ()):
                if ch in cs:
                    nxt.add(t)
        return self.closure(nxt)

    def initial(self) -> FrozenSet[int]:
        return self.closure([self.start])

    def accepting(self, states: FrozenSet[int]) -> bool:
        return self.accept in states

    def matches(self, s: str) -> bool:
        cur = self.initial()
        for ch in s:
            if ch not in ALPHASET:
                return False
            cur = self.step(cur, ch)
            if not cur:
                return False
        return self.accepting(cur)


class _Builder:
    def __init__(self, flags: int = 0) -> None:
        self.eps: Dict[int, Set[int]] = {}
        self.trans: Dict[int, List[Tuple[FrozenSet[str], int]]] = {}
        self.n = 0
        self.ignorecase = bool(flags & re.IGNORECASE)

    def new(self) -> int:
        self.n += 1
        return self.n - 1

    def e(self, a: int, b: int) -> None:
        self.eps.setdefault(a, set()).add(b)

    def t(self, a: int, cs: FrozenSet[str], b: int) -> None:
        if self.ignorecase:
            cs = frozenset(c for x in cs for c in (x, x.lower(), x.upper()) if c in ALPHASET)
        self.trans.setdefault(a, []).append((cs, b))

    def charset(self, items) -> FrozenSet[str]:
        neg = False
        out: Set[str] = set()
        for op, av in items:
            name = str(op)
            if name == "NEGATE":
                neg = True
            elif name == "LITERAL":
                out.add(chr(av))
            elif name == "RANGE":
                out |= {chr(c) for c in range(av[0], av[1] + 1)}
            elif name == "CATEGORY":
                out |= category(str(av))
            else:
                raise Unsupported(f"regex class item {name}")
        out &= ALPHASET
        return frozenset(ALPHASET - out) if neg else frozenset(out)

    def seq(self, items, start: int) -> int:
        cur = start
        for op, av in items:
            cur = self.node(str(op), av, cur)
        return cur

    def node(self, name: str, av, cur: int) -> int:  # noqa: C901
        if name == "LITERAL":
            nxt = self.new()
            self.t(cur, frozenset({chr(av)}) & ALPHASET, nxt)
            return nxt
        if name == "NOT_LITERAL":
            nxt = self.new()
            self.t(cur, frozenset(ALPHASET - {chr(av)}), nxt)
            return nxt
        if name == "ANY":
            nxt = self.new()
            self.t(cur, ALPHASET, nxt)
            return nxt
        if name == "IN":
            nxt = self.new()
            self.t(cur, self.charset(av), nxt)
            return nxt
        if name == "CATEGORY":
            nxt = self.new()
            self.t(cur, frozenset(category(str(av))), nxt)
            return nxt
        if name == "SUBPATTERN":
            return self.seq(av[3], cur)
        if name == "BRANCH":
            end = self.new()
            for alt in av[1]:
                s = self.new()
                self.e(cur, s)
                self.e(self.seq(alt, s), end)
            return end
        if name in ("MAX_REPEAT", "MIN_REPEAT", "POSSESSIVE_REPEAT"):
            lo, hi, sub = av
            for _ in range(lo):
                cur = self.seq(sub, cur)
            if hi == sre.MAXREPEAT:
                loop = self.new()
                self.e(cur, loop)
                end = self.seq(sub, loop)
                self.e(end, loop)
                return loop
            end = self.new()
            self.e(cur, end)
            for _ in range(hi - lo):
                cur = self.seq(sub, cur)
                self.e(cur, end)
            return end
        if name == "AT":
            raise Unsupported(f"anchor {av} in the middle of a pattern")
        raise Unsupported(f"regex construct {name}")


def category(name: str) -> Set[str]:
    if name.endswith("CATEGORY_DIGIT"):
        return set("0123456789")
    if name.endswith("CATEGORY_NOT_DIGIT"):
        return set(ALPHASET) - set("0123456789")
    if name.endswith("CATEGORY_SPACE"):
        return {" "}
    if name.endswith("CATEGORY_NOT_SPACE"):
        return set(ALPHASET) - {" "}
    if name.endswith("CATEGORY_WORD"):
        return {c for c in ALPHASET if c.isalnum() or c == "_"}
    if name.endswith("CATEGORY_NOT_WORD"):
        return {c for c in ALPHASET if not (c.isalnum() or c == "_")}
    raise Unsupported(f"regex category {name}")


def split_top_level(pattern: str) -> List[str]:
    """Split a pattern at top-level `|` (outside groups and classes).  sre factors common prefixes of a BRANCH, which
    would move ^/$ anchors into the middle of the parse tree; parsing alternatives separately avoids that."""
    out, cur, depth, in_class, i = [], [], 0, False, 0
    while i < len(pattern):
        ch = pattern[i]
        if ch == "\\" and i + 1 < len(pattern):
            cur.append(pattern[i:i + 2])
            i += 2
            continue
        if in_class:
            if ch == "]":
                in_class = False
        elif ch == "[":
            in_class = True
            if i + 1 < len(pattern) and pattern[i + 1] in "^]":
                cur.append(ch)
                i += 1
                ch = pattern[i]
                if ch == "^" and i + 1 < len(pattern) and pattern[i + 1] == "]":
                    cur.append(ch)
                    i += 1
                    ch = pattern[i]
        elif ch == "(":
            depth += 1
        elif ch == ")":
            depth -= 1
        elif ch == "|" and depth == 0:
            out.append("".join(cur))
            cur = []
            i += 1
            continue
        cur.append(ch)
        i += 1
    out.append("".join(cur))
    return out


def compile_nfa(pattern: str, mode: str = "fullmatch", flags: int = 0) -> NFA:
    b: Optional[_Builder] = None
    start = accept = -1
    for alt_src in split_top_level(pattern):
        try:
            parsed = sre.parse(alt_src, flags)
        except Exception as e:  # pragma: no cover
            raise Unsupported(f"cannot parse regex {alt_src!r}: {e}")
        if b is None:
            b = _Builder(flags | parsed.state.flags)
            start, accept = b.new(), b.new()
        alt = list(parsed)
        # a single wrapping group around the whole alternative: look inside for the anchors
        while len(alt) == 1 and str(alt[0][0]) == "SUBPATTERN" and not alt[0][1][1] and not alt[0][1][2]:
            alt = list(alt[0][1][3])
        anch_start = bool(alt) and str(alt[0][0]) == "AT" and str(alt[0][1]).endswith(("AT_BEGINNING", "AT_BEGINNING_STRING"))
        if anch_start:
            alt = alt[1:]
        anch_end = bool(alt) and str(alt[-1][0]) == "AT" and str(alt[-1][1]).endswith(("AT_END", "AT_END_STRING"))
        if anch_end:
            alt = alt[:-1]
        s_ = b.new()
        b.e(start, s_)
        if mode == "search" and not anch_start:
            b.t(s_, ALPHASET, s_)
        end = b.seq(alt, s_)
        if (mode in ("search", "match")) and not anch_end:
            b.t(end, ALPHASET, end)
        b.e(end, accept)
    assert b is not None
    return NFA(start, accept, b.eps, b.trans, b.n)


# ---- product exploration ------------------------------------------------------------------------------------
def witness(pos: Sequence[NFA], neg: Sequence[NFA] = (), max_len: int = 40, alphabet: Optional[List[str]] = None) -> Optional[str]:
    """Shortest string (in PREFERRED symbol order) accepted by every NFA in `pos` and by none in `neg`; None if no such string."""
    alpha = alphabet or ORDER
    init = (tuple(a.initial() for a in pos), tuple(a.initial() for a in neg))
    seen = {init}
    frontier: List[Tuple[Tuple, str]] = [(init, "")]
    def ok(st) -> bool:
        return all(a.accepting(s) for a, s in zip(pos, st[0])) and not any(a.accepting(s) for a, s in zip(neg, st[1]))
    if ok(init):
        return ""
    for _ in range(max_len):
        nxt: List[Tuple[Tuple, str]] = []
        for st, w in frontier:
            for ch in alpha:
                ps = tuple(a.step(s, ch) for a, s in zip(pos, st[0]))
                if any(not s for s in ps):
                    continue
                ns = tuple(a.step(s, ch) for a, s in zip(neg, st[1]))
                st2 = (ps, ns)
                if st2 in seen:
                    continue
                seen.add(st2)
                if ok(st2):
                    return w + ch
                nxt.append((st2, w + ch))
        frontier = nxt
        if not frontier:
            return None
    return None


def included(a: NFA, b: NFA, within: Sequence[NFA] = ()) -> Optional[str]:
    """None if L(a) ∩ L(within…) ⊆ L(b), else a witness string in the difference."""
    return witness([a, *within], [b])
