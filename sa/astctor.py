"""AST-constructor facts: which node classes the constructor builds, and for op-carrying nodes which operator
texts it can store, derived from the grammar alternative the constructing method serves.

A constructing method `visit<Label>` serves the grammar alternative(s) labelled `<label>` (ANTLR convention) or the rule
of that name.  `op=<e>` is resolved by def-use to either a constant (through Program.const_values) or to
`children[k].text`, i.e. the text of the k-th element of the alternative, which must then be a lexer-token set.
"""
from __future__ import annotations

import ast
from dataclasses import dataclass, field
from typing import Dict, List, Optional, Set, Tuple

from sa import g4
from sa.core import AnalysisError, FuncInfo, Program, src, walk_no_nested

CTOR_MODULES = (
    "vtlengine.AST.ASTConstructor",
    "vtlengine.AST.ASTConstructorModules.Expr",
    "vtlengine.AST.ASTConstructorModules.ExprComponents",
    "vtlengine.AST.ASTConstructorModules.Terminals",
)


@dataclass
class CtorSite:
    cls: str  # node class built
    func: FuncInfo
    call: ast.Call
    ops: Optional[Set[str]] = None  # operator texts (None = op not resolved / class has no op)
    shape: Optional[str] = None  # 'call' (OP LPAREN ...), 'infix', 'prefix', None
    how: str = ""
    alt_labels: List[str] = field(default_factory=list)


def _single_assignment(f: FuncInfo, name: str) -> Optional[ast.AST]:
    vals = []
    for n in walk_no_nested(f.node):
        if isinstance(n, ast.Assign) and len(n.targets) == 1 and isinstance(n.targets[0], ast.Name) and n.targets[0].id == name:
            vals.append(n.value)
    return vals[0] if len(vals) == 1 else None


def _child_index(f: FuncInfo, e: ast.AST, depth: int = 0) -> Optional[int]:
    """e denotes ctx.children[k] -> k"""
    if depth > 4:
        return None
    if isinstance(e, ast.Name):
        v = _single_assignment(f, e.id)
        return _child_index(f, v, depth + 1) if v is not None else None
    if isinstance(e, ast.Subscript) and isinstance(e.slice, ast.Constant) and isinstance(e.slice.value, int):
        base = e.value
        if isinstance(base, ast.Name):
            bv = _single_assignment(f, base.id)
            if bv is not None and src(bv) in ("ctx.children",):
                return e.slice.value
        if src(base) == "ctx.children":
            return e.slice.value
    return None


def _text_source(f: FuncInfo, e: ast.AST, depth: int = 0) -> Optional[int]:
    """e denotes <child k>.text (possibly wrapped in str()) -> k"""
    if depth > 4 or e is None:
        return None
    if isinstance(e, ast.Name):
        v = _single_assignment(f, e.id)
        return _text_source(f, v, depth + 1) if v is not None else None
    if isinstance(e, ast.Call) and isinstance(e.func, ast.Name) and e.func.id == "str" and len(e.args) == 1:
        return _text_source(f, e.args[0], depth + 1)
    if isinstance(e, ast.Attribute) and e.attr == "text":
        return _child_index(f, e.value)
    return None


def _camel(snake: str) -> str:
    parts = snake.lower().split("_")
    return parts[0] + "".join(x.capitalize() for x in parts[1:])


def dispatch_labels(P: Program) -> Dict[Tuple[str, str], Set[str]]:
    """(module, method) -> grammar alternative labels, from the constructor's own dispatch
    `if ctx.ctx_id == RC.X_ATOM: return self.visitY(ctx)` (RC constants are the labels in SNAKE_CASE)."""
    out: Dict[Tuple[str, str], Set[str]] = {}
    for mn in CTOR_MODULES:
        m = P.module(mn)
        for n in ast.walk(m.tree):
            if not isinstance(n, ast.If) or not isinstance(n.test, ast.Compare) or src(n.test.left) != "ctx.ctx_id":
                continue
            comp = n.test.comparators[0]
            names = [comp] if isinstance(comp, ast.Attribute) else list(getattr(comp, "elts", []))
            labs = {_camel(x.attr) for x in names if isinstance(x, ast.Attribute) and src(x.value) == "RC"}
            if not labs or len(n.body) != 1 or not isinstance(n.body[0], ast.Return):
                continue
            c = n.body[0].value
            if isinstance(c, ast.Call) and isinstance(c.func, ast.Attribute) and src(c.func.value) == "self" \
                    and len(c.args) == 1 and src(c.args[0]) == "ctx":
                out.setdefault((mn, c.func.attr), set()).update(labs)
    return out


def _alts_for(G: g4.Grammar, method: str, extra: Optional[Set[str]] = None) -> List[Tuple[g4.Rule, g4.Alt]]:
    if not method.startswith("visit") or len(method) < 6:
        return []
    lab = method[5].lower() + method[6:]
    la = G.labelled_alts()
    if lab in la:
        return la[lab]
    if lab in G.rules:
        r = G.rules[lab]
        return [(r, a) for a in r.alts]
    if extra:
        res: List[Tuple[g4.Rule, g4.Alt]] = []
        for x in sorted(extra):
            if x not in la:
                return []
            res.extend(la[x])
        return res
    return []


def _plain(e: g4.Elem) -> bool:
    return e.suffix == "" and e.kind in ("tok", "ref", "group")


def sites(P: Program, G: g4.Grammar, node_names: Set[str]) -> List[CtorSite]:
    out: List[CtorSite] = []
    disp = dispatch_labels(P)
    for mn in CTOR_MODULES:
        m = P.module(mn)
        for f in [x for x in P.iter_functions() if x.module is m]:
            for n in walk_no_nested(f.node):
                if not isinstance(n, ast.Call):
                    continue
                q = P.resolve_expr(m, n.func)
                if not q or not q.startswith("vtlengine.AST."):
                    continue
                cname = q.split(".")[-1]
                if cname not in node_names:
                    continue
                s = CtorSite(cname, f, n)
                opkw = next((k.value for k in n.keywords if k.arg == "op"), None)
                if opkw is not None:
                    cv = P.const_values(f, m, opkw)
                    if cv is not None and all(isinstance(x, str) for x in cv):
                        s.ops, s.how = set(cv), "constant"
                    else:
                        k = _text_source(f, opkw)
                        alts = _alts_for(G, f.name, disp.get((mn, f.name)))
                        if k is not None and alts:
                            ops: Set[str] = set()
                            ok = True
                            shapes = set()
                            for r, a in alts:
                                if k >= len(a.elems) or not all(_plain(x) for x in a.elems[: k + 1]):
                                    ok = False
                                    break
                                toks = G.elem_tokens(a.elems[k])
                                if toks is None:
                                    ok = False
                                    break
                                for t in toks:
                                    txt = G.token_text(t)
                                    if txt is None:
                                        ok = False
                                    else:
                                        ops.add(txt)
                                nxt = a.elems[k + 1] if k + 1 < len(a.elems) else None
                                if k == 0 and nxt is not None and nxt.kind == "tok" and nxt.name == "LPAREN":
                                    shapes.add("call")
                                elif k == 0:
                                    shapes.add("prefix")
                                else:
                                    shapes.add("infix")
                                s.alt_labels.append(a.label or r.name)
                            if ok and ops:
                                s.ops, s.how = ops, f"children[{k}].text of {','.join(sorted(set(s.alt_labels)))}"
                                s.shape = shapes.pop() if len(shapes) == 1 else None
                out.append(s)
    if len(out) < 150:
        raise AnalysisError(f"only {len(out)} node construction sites found in the AST constructor (anchor changed)")
    return out


# ---------------------------------------------------------------------------------------------------------------
# quote provenance of name-carrying fields: does the constructor remove the quotes of a quoted identifier?

_STRIP_FUNCS = {"_remove_scaped_characters"}


def _returns_of(f: FuncInfo) -> List[ast.AST]:
    return [n.value for n in walk_no_nested(f.node) if isinstance(n, ast.Return) and n.value is not None]


def quote_status(P: Program, f: FuncInfo, e: Optional[ast.AST], fld: Optional[str] = None, depth: int = 0) -> str:
    """'stripped' if on some path the text has its identifier quotes removed, 'raw' if it is token text as written,
    'unknown' otherwise.  `fld`: when e evaluates to an AST node, the field of that node we are interested in."""
    if e is None or depth > 8:
        return "unknown"
    res: Set[str] = set()

    def add(s: str) -> None:
        res.add(s)
    if isinstance(e, ast.Constant):
        return "raw" if isinstance(e.value, str) else "unknown"
    if isinstance(e, ast.JoinedStr):
        for v in e.values:
            if isinstance(v, ast.FormattedValue):
                add(quote_status(P, f, v.value, fld, depth + 1))
    elif isinstance(e, ast.IfExp):
        add(quote_status(P, f, e.body, fld, depth + 1))
        add(quote_status(P, f, e.orelse, fld, depth + 1))
    elif isinstance(e, (ast.ListComp, ast.GeneratorExp)):
        add(quote_status(P, f, e.elt, fld, depth + 1))
    elif isinstance(e, (ast.List, ast.Tuple)):
        for x in e.elts:
            add(quote_status(P, f, x, fld, depth + 1))
    elif isinstance(e, ast.Subscript):
        if isinstance(e.slice, ast.Slice) and src(e.slice) in ("1:-1",):
            return "stripped"
        add(quote_status(P, f, e.value, fld, depth + 1))
    elif isinstance(e, ast.Name):
        vals = [n.value for n in walk_no_nested(f.node) if isinstance(n, ast.Assign) and any(isinstance(t, ast.Name) and t.id == e.id for t in n.targets)]
        # loop / comprehension variables and appended elements
        for n in ast.walk(f.node):
            if isinstance(n, ast.Call) and isinstance(n.func, ast.Attribute) and n.func.attr in ("append", "extend") \
                    and isinstance(n.func.value, ast.Name) and n.func.value.id == e.id and n.args:
                vals.append(n.args[0])
            if isinstance(n, (ast.For, ast.comprehension)) and isinstance(n.target, ast.Name) and n.target.id == e.id:
                vals.append(n.iter)
        if not vals:
            return "unknown"
        for v in vals:
            if isinstance(v, ast.Constant) and v.value is None:
                continue
            add(quote_status(P, f, v, fld, depth + 1))
    elif isinstance(e, ast.Attribute):
        if e.attr == "text":
            return "raw"
        # <node expr>.<field>
        add(quote_status(P, f, e.value, e.attr, depth + 1))
    elif isinstance(e, ast.Call):
        fn = e.func
        name = fn.attr if isinstance(fn, ast.Attribute) else (fn.id if isinstance(fn, ast.Name) else "")
        if name in _STRIP_FUNCS:
            return "stripped"
        if name in ("replace", "strip") and e.args and isinstance(e.args[0], ast.Constant) and "'" in str(e.args[0].value):
            return "stripped"
        if name == "str" and e.args:
            return quote_status(P, f, e.args[0], fld, depth + 1)
        if name in ("replace", "strip", "lower", "upper") and isinstance(fn, ast.Attribute):
            return quote_status(P, f, fn.value, fld, depth + 1)
        # node constructor: look at the keyword for `fld`
        q = P.resolve_expr(f.module, fn)
        if q and q.startswith("vtlengine.AST.") and fld is not None:
            kw = next((k.value for k in e.keywords if k.arg == fld), None)
            return quote_status(P, f, kw, None, depth + 1)
        # constructor helper method: Terminals().visitX(...), self.visitX(...)
        if name.startswith("visit"):
            targets = [P.functions[t] for t in P.resolve_call(f, e)[:4] if t in P.functions]
            if not targets:
                for mn in CTOR_MODULES:
                    for g in P.iter_functions():
                        if g.module.name == mn and g.name == name:
                            targets.append(g)
            for g in targets[:4]:
                for r in _returns_of(g):
                    add(quote_status(P, g, r, fld, depth + 1))
    res.discard("")
    if "stripped" in res:
        return "stripped"
    if res == {"raw"}:
        return "raw"
    return "unknown"


def field_quote_status(P: Program, sites_: List[CtorSite], cls: str, fld: str) -> Dict[str, List[str]]:
    out: Dict[str, List[str]] = {}
    for s in sites_:
        if s.cls != cls:
            continue
        kw = next((k.value for k in s.call.keywords if k.arg == fld), None)
        if kw is None:
            continue
        out.setdefault(quote_status(P, s.func, kw), []).append(f"{s.func.name}:{s.call.lineno}")
    return out


def returned_classes(P: Program, f: FuncInfo, node_names: Set[str], depth: int = 0, _seen: Optional[Set[str]] = None) -> Set[str]:
    """Node classes a constructor method can return (through `return self.visitY(ctx)` chains and local variables)."""
    _seen = _seen if _seen is not None else set()
    if f.qualname in _seen or depth > 6:
        return set()
    _seen.add(f.qualname)
    out: Set[str] = set()

    def of_expr(e: Optional[ast.AST], d: int = 0) -> None:
        if e is None or d > 4:
            return
        if isinstance(e, ast.Call):
            q = P.resolve_expr(f.module, e.func)
            if q and q.startswith("vtlengine.AST.") and q.split(".")[-1] in node_names:
                out.add(q.split(".")[-1])
                return
            name = e.func.attr if isinstance(e.func, ast.Attribute) else (e.func.id if isinstance(e.func, ast.Name) else "")
            if name.startswith("visit"):
                targets = [P.functions[t] for t in P.resolve_call(f, e)[:4] if t in P.functions]
                if not targets:
                    targets = [g for g in P.iter_functions() if g.module.name in CTOR_MODULES and g.name == name][:3]
                for g in targets:
                    out.update(returned_classes(P, g, node_names, depth + 1, _seen))
        elif isinstance(e, ast.Name):
            for n in walk_no_nested(f.node):
                if isinstance(n, ast.Assign) and any(isinstance(t, ast.Name) and t.id == e.id for t in n.targets):
                    of_expr(n.value, d + 1)
        elif isinstance(e, ast.IfExp):
            of_expr(e.body, d + 1)
            of_expr(e.orelse, d + 1)
    for r in _returns_of(f):
        of_expr(r)
    return out
