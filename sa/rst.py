"""E5 (docs side) - a small reStructuredText list-table reader.
tables(path) -> [Table(title_path, header, rows)], cells as stripped text with inline markup removed."""
from __future__ import annotations

import re
from dataclasses import dataclass
from pathlib import Path
from typing import List

from sa.core import AnalysisError

PUNCT = set("#*=-^~\"'`+:._")


@dataclass
class Table:
    titles: List[str]  # enclosing section titles, outermost first
    rows: List[List[str]]
    line: int

    @property
    def title(self) -> str:
        return self.titles[-1] if self.titles else ""

    @property
    def header(self) -> List[str]:
        return self.rows[0]


def clean(cell: str) -> str:
    c = cell.strip()
    c = re.sub(r"\*\*(.+?)\*\*", r"\1", c)
    c = re.sub(r"``(.+?)``", r"\1", c)
    return re.sub(r"\s+", " ", c).strip()


def _is_underline(s: str) -> bool:
    s = s.rstrip()
    return len(s) >= 3 and len(set(s)) == 1 and s[0] in PUNCT


def tables(path: Path) -> List[Table]:
    if not path.exists():
        raise AnalysisError(f"anchor vanished: {path}")
    lines = path.read_text(encoding="utf-8").splitlines()
    out: List[Table] = []
    levels: List[str] = []  # underline chars in order of first appearance
    titles: List[str] = []
    i = 0
    while i < len(lines):
        ln = lines[i]
        # section title: text line followed by underline of >= its length
        if (ln.strip() and not _is_underline(ln) and i + 1 < len(lines) and _is_underline(lines[i + 1])
                and len(lines[i + 1].rstrip()) >= len(ln.rstrip()) and not ln.startswith((" ", ".."))):
            ch = lines[i + 1].strip()[0]
            over = i > 0 and _is_underline(lines[i - 1]) and lines[i - 1].strip()[0] == ch
            key = ch + ("o" if over else "")
            if key not in levels:
                levels.append(key)
            depth = levels.index(key)
            titles = titles[:depth] + [ln.strip()]
            i += 2
            continue
        m = re.match(r"^(\s*)\.\. list-table::", ln)
        if m:
            start = i + 1
            i += 1
            rows: List[List[str]] = []
            # options and blank lines
            while i < len(lines) and (not lines[i].strip() or re.match(r"^\s+:[\w-]+:", lines[i])):
                i += 1
            row_indent = None
            while i < len(lines):
                l2 = lines[i]
                if not l2.strip():
                    i += 1
                    continue
                ind = len(l2) - len(l2.lstrip())
                mrow = re.match(r"^(\s*)\* - ?(.*)$", l2)
                if mrow and (row_indent is None or len(mrow.group(1)) == row_indent):
                    row_indent = len(mrow.group(1))
                    rows.append([mrow.group(2)])
                    i += 1
                    continue
                if row_indent is None or ind <= row_indent:
                    break
                mcell = re.match(r"^(\s*)- ?(.*)$", l2)
                if mcell and len(mcell.group(1)) == row_indent + 2:
                    rows[-1].append(mcell.group(2))
                else:
                    rows[-1][-1] += " " + l2.strip()
                i += 1
            out.append(Table(list(titles), [[clean(c) for c in r] for r in rows], start))
            continue
        i += 1
    return out


def find(tabs: List[Table], title_contains: str, header_first: str | None = None, nth: int = 0) -> Table:
    c = [t for t in tabs if any(title_contains.lower() in x.lower() for x in t.titles[-1:])
         and (header_first is None or (t.rows and t.rows[0] and t.rows[0][0].lower() == header_first.lower()))]
    if len(c) <= nth:
        raise AnalysisError(f"docs table not found: section~{title_contains!r} header[0]={header_first!r} #{nth}")
    return c[nth]
