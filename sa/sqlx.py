"""E3 - SQL fragment engine: extraction of SQL skeletons from Python string expressions, tokenizer, macro table.

A *skeleton* is the text of a (f-)string expression with every interpolated Python expression replaced by a hole
`⟦expr⟧` (expr = source text of the interpolated expression).  Explicit `+` concatenations and adjacent literals are folded.
"""
from __future__ import annotations

import ast
import re
from dataclasses import dataclass, field
from pathlib import Path
from typing import Dict, Iterator, List, Optional, Set, Tuple

from sa.core import AnalysisError, FuncInfo, ModuleInfo, Program, src

HOLE_L, HOLE_R = "⟦", "⟧"
SQL_MODULE_PREFIXES = ("vtlengine.duckdb_transpiler", "vtlengine.ViralPropagation")
SQL_START = re.compile(r"^\s*\(?\s*(SELECT|WITH|CREATE|DROP|UPDATE|INSERT|COPY|DELETE|ALTER|SET|DESCRIBE|PRAGMA|CASE|CAST|COALESCE|"
                       r"ROW_NUMBER|FROM|WHERE|GROUP BY|ORDER BY|PARTITION BY|LEFT JOIN|INNER JOIN|FULL|CROSS JOIN|JOIN|UNION|QUALIFY|HAVING|LIMIT|OVER)\b", re.I)
SQL_HINT = re.compile(r"\b(SELECT|FROM|WHERE|OVER\s*\(|PARTITION BY|ORDER BY|GROUP BY|CAST\(|COALESCE\(|CASE WHEN|UNION ALL|JOIN|LIMIT|QUALIFY|"
                      r"list_reduce|string_agg|array_agg|error\()", re.I)


@dataclass
class Skeleton:
    text: str
    module: ModuleInfo
    func: Optional[FuncInfo]
    node: ast.AST
    holes: List[str] = field(default_factory=list)

    @property
    def line(self) -> int:
        return getattr(self.node, "lineno", 0)

    @property
    def where(self) -> str:
        return self.func.qualname if self.func else self.module.name


def skeleton_of(e: ast.AST) -> Optional[Tuple[str, List[str]]]:
    """(text with holes, hole expressions) for a string-valued expression, or None if it is not string-shaped."""
    if isinstance(e, ast.Constant) and isinstance(e.value, str):
        return e.value, []
    if isinstance(e, ast.JoinedStr):
        out, holes = [], []
        for v in e.values:
            if isinstance(v, ast.Constant):
                out.append(str(v.value))
            elif isinstance(v, ast.FormattedValue):
                h = src(v.value)
                holes.append(h)
                out.append(f"{HOLE_L}{h}{HOLE_R}")
        return "".join(out), holes
    if isinstance(e, ast.BinOp) and isinstance(e.op, ast.Add):
        a, b = skeleton_of(e.left), skeleton_of(e.right)
        if a is None and b is None:
            return None
        at, ah = a if a else (f"{HOLE_L}{src(e.left)}{HOLE_R}", [src(e.left)])
        bt, bh = b if b else (f"{HOLE_L}{src(e.right)}{HOLE_R}", [src(e.right)])
        return at + bt, ah + bh
    return None


def iter_skeletons(P: Program, prefixes: Tuple[str, ...] = SQL_MODULE_PREFIXES) -> Iterator[Skeleton]:
    """Maximal string expressions in the SQL-emitting modules that look like SQL."""
    for m in P.modules.values():
        if not m.name.startswith(prefixes):
            continue
        for n in ast.walk(m.tree):
            if not isinstance(n, (ast.Constant, ast.JoinedStr, ast.BinOp)):
                continue
            par = getattr(n, "_parent", None)
            if isinstance(par, ast.JoinedStr) or isinstance(par, ast.FormattedValue):
                continue
            if isinstance(par, ast.BinOp) and isinstance(par.op, ast.Add) and skeleton_of(par) is not None:
                continue  # part of a larger concatenation
            if isinstance(par, ast.Expr) and isinstance(n, ast.Constant):
                continue  # docstring
            sk = skeleton_of(n)
            if sk is None:
                continue
            text, holes = sk
            if len(text) < 6 or not (SQL_START.search(text) or SQL_HINT.search(text)):
                continue
            fn, _ = P.enclosing(m, n)
            yield Skeleton(text, m, fn, n, holes)


# ---- tokenizer ------------------------------------------------------------------------------------------
TOKEN_RE = re.compile(r"""
    (?P<hole>⟦.*?⟧)
  | (?P<ws>\s+)
  | (?P<comment>--[^\n]*|/\*.*?\*/)
  | (?P<string>'(?:[^']|'')*')
  | (?P<qident>"(?:[^"]|"")*")
  | (?P<number>\d+(?:\.\d+)?(?:[eE][+-]?\d+)?)
  | (?P<ident>[A-Za-z_][A-Za-z_0-9$]*)
  | (?P<fmt>\{[0-9a-zA-Z_]*\})
  | (?P<op>::|<>|!=|>=|<=|\|\||->|=>|//|[-+*/%=<>(),.;\[\]{}:?@!&|~^])
""", re.X | re.S)


@dataclass
class Tok:
    kind: str
    text: str
    pos: int

    @property
    def up(self) -> str:
        return self.text.upper()


def tokenize(text: str) -> List[Tok]:
    out: List[Tok] = []
    i = 0
    while i < len(text):
        m = TOKEN_RE.match(text, i)
        if not m:
            out.append(Tok("other", text[i], i))
            i += 1
            continue
        k = m.lastgroup or "other"
        if k not in ("ws", "comment"):
            out.append(Tok(k, m.group(0), i))
        i = m.end()
    return out


def matching_paren(toks: List[Tok], i: int) -> int:
    """index of the `)` matching the `(` at index i (or len(toks) if unbalanced - fragment)."""
    depth = 0
    for j in range(i, len(toks)):
        if toks[j].text == "(":
            depth += 1
        elif toks[j].text == ")":
            depth -= 1
            if depth == 0:
                return j
    return len(toks)


# ---- macros -----------------------------------------------------------------------------------------------
@dataclass
class Macro:
    name: str
    params: List[str]
    body: str
    file: str
    line: int
    table: bool = False

    def refs(self) -> Set[str]:
        return {t.text for t in tokenize(self.body) if t.kind == "ident" and t.text.startswith("vtl_")}


def load_macros(P: Program) -> Dict[str, Macro]:
    sql_dir = P.root / "duckdb_transpiler" / "sql"
    if not sql_dir.is_dir():
        raise AnalysisError("anchor vanished: duckdb_transpiler/sql")
    out: Dict[str, Macro] = {}
    for f in sorted(sql_dir.glob("*.sql")):
        text = f.read_text()
        for m in re.finditer(r"CREATE\s+(?:OR\s+REPLACE\s+)?MACRO\s+([A-Za-z_]\w*)\s*\(([^)]*)\)\s*AS\s*(TABLE\b)?", text, re.I):
            name = m.group(1)
            params = [p.strip().split(":=")[0].strip().split()[0] for p in m.group(2).split(",") if p.strip()]
            # body: up to the terminating `;` at paren depth 0 (strings respected)
            i = m.end()
            depth = 0
            j = i
            in_str = False
            while j < len(text):
                ch = text[j]
                if in_str:
                    if ch == "'":
                        if j + 1 < len(text) and text[j + 1] == "'":
                            j += 1
                        else:
                            in_str = False
                elif ch == "'":
                    in_str = True
                elif ch == "-" and text[j:j + 2] == "--":
                    nl = text.find("\n", j)
                    j = nl if nl >= 0 else len(text)
                    continue
                elif ch == "(":
                    depth += 1
                elif ch == ")":
                    depth -= 1
                elif ch == ";" and depth == 0:
                    break
                j += 1
            out[name] = Macro(name, params, text[i:j].strip(), str(f.relative_to(P.repo)), text.count("\n", 0, m.start()) + 1, bool(m.group(3)))
    if len(out) < 40:
        raise AnalysisError(f"only {len(out)} SQL macros found (anchor changed)")
    return out
